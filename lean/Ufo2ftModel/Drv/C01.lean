import Ufo2ftModel.Drv.GeomJ
import Ufo2ftModel.Spec.C01
import Ufo2ftModel.Spec.Good
namespace Ufo2ft.Drv.C01
open Lean Ufo2ft Ufo2ft.Drv Ufo2ft.C01

def opJ : Op → Json
  | .moveTo p => Json.arr #["m", ratJ p.1, ratJ p.2]
  | .lineTo p => Json.arr #["l", ratJ p.1, ratJ p.2]
  | .curveTo a b c => Json.arr #["c", ratJ a.1, ratJ a.2, ratJ b.1, ratJ b.2, ratJ c.1, ratJ c.2]
  | .closePath => Json.arr #["z"]

def asOp (j : Json) : R Op := do
  match ← asArr j with
  | [t, x, y] => match ← asStr t with
    | "m" => return .moveTo (← asRat x, ← asRat y)
    | "l" => return .lineTo (← asRat x, ← asRat y)
    | s => throw s!"op {s}"
  | [_, a, b, c, d, e, f] => return .curveTo (← asRat a, ← asRat b) (← asRat c, ← asRat d) (← asRat e, ← asRat f)
  | [_] => return .closePath
  | _ => throw "op"

def errJ : C01.Err → Json
  | .unsupported => "Unsupported" | .valueError => "ValueError" | .geom e => gerrJ e

/-- op "font": in = {tol, glyphs}; obs = {err} | {glyphs: [[name, ops, advance]...]} -/
def font (req : Json) : R Reply := do
  let i ← field req "in"
  let tol ← asRat (← field i "tol")
  let gs ← asGlyphSet (← field i "glyphs")
  let skip ← asList asStr (← field i "skip")
  let obs ← field req "obs"
  let oerr ← asOpt asStr (← field obs "err")
  -- model
  match preprocess skip gs with
  | .error e => return { model := Json.mkObj [("err", errJ e)], holds := oerr.isSome }
  | .ok pre =>
  let adv := pre.map (fun e => advance e.2)
  if adv.any (fun a => match a with | .error _ => true | .ok _ => false) then
    return { model := Json.mkObj [("err", "ValueError")], holds := oerr == some "ValueError" }
  let outs := pre.map (fun e => (e.1, cffOutline tol pre e.1, advance e.2))
  match outs.find? (fun o => match o.2.1 with | .error _ => true | .ok _ => false) with
  | some (_, .error e, _) =>
    return { model := Json.mkObj [("err", errJ e)], holds := oerr.isSome }
  | _ =>
    let model := Json.mkObj [("err", Json.null), ("glyphs", listJ (fun (o : String × Except C01.Err (List Op) × Except C01.Err Int) =>
      Json.arr #[Json.str o.1, (match o.2.1 with | .ok ops => listJ opJ ops | .error _ => Json.null),
                 (match o.2.2 with | .ok a => intJ a | .error _ => Json.null)]) outs)]
    match oerr with
    | some _ => return { model, holds := false }
    | none =>
      let og ← asArr (← field obs "glyphs")
      let mut bad : List String := []
      for o in og do
        match ← asArr o with
        | [n, ops, a] =>
          let n ← asStr n
          let ops ← asList asOp ops
          let a ← asInt a
          match gs.get? n with
          | some g => if skip.contains n || !(holdsOutline skip.isEmpty tol gs g ops && holdsAdvance g a) then bad := bad ++ [n]
          | none => if n != ".notdef" then bad := bad ++ [n]
        | _ => throw "glyph entry"
      let names := og.filterMap (fun o => match o.getArr? with | .ok a => (a[0]?.bind (fun j => j.getStr?.toOption)) | _ => none)
      let missing := gs.names.filter (fun n => !names.contains n && !skip.contains n)
      return { model, holds := bad.isEmpty && missing.isEmpty, info := strsJ (bad ++ missing),
               hyp := Json.bool (goodCert gs (depthCert gs) && skip.isEmpty) }

def handle (op : String) (req : Json) : R Reply :=
  match op with
  | "font" => font req
  | _ => throw s!"C01: unknown op {op}"

end Ufo2ft.Drv.C01
