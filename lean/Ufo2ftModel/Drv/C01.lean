import Ufo2ftModel.Drv.GeomJ
import Ufo2ftModel.Spec.C01
import Ufo2ftModel.Spec.Good
import Ufo2ftModel.Model.C01Codec
namespace Ufo2ft.Drv.C01
open Lean Ufo2ft Ufo2ft.Drv Ufo2ft.C01

def opJ : Op → Json
  | .moveTo p => Json.arr #["m", ratJ p.1, ratJ p.2]
  | .lineTo p => Json.arr #["l", ratJ p.1, ratJ p.2]
  | .curveTo a b c => Json.arr #["c", ratJ a.1, ratJ a.2, ratJ b.1, ratJ b.2, ratJ c.1, ratJ c.2]
  | .closePath => Json.arr #["z"]

def asOp (j : Json) : R Op := do
  match ← asArr j with
  | [t, x, y] => match ← asStr t with
    | "m" => return .moveTo (← asRat x, ← asRat y)
    | "l" => return .lineTo (← asRat x, ← asRat y)
    | s => throw s!"op {s}"
  | [_, a, b, c, d, e, f] => return .curveTo (← asRat a, ← asRat b) (← asRat c, ← asRat d) (← asRat e, ← asRat f)
  | [_] => return .closePath
  | _ => throw "op"

def t2opName : T2Op → String
  | .rmoveto => "rmoveto" | .rlineto => "rlineto" | .rrcurveto => "rrcurveto" | .endchar => "endchar"

/-- a raw program token: numbers as exact rationals, operators by their fontTools names -/
def tokJ : Tok → Json
  | .num v => ratJ v
  | .op o => Json.str (t2opName o)

/-- an observed token; an operator the unspecialised encoder never emits gives `none` (the program then simply differs) -/
def asTok (j : Json) : R (Option Tok) := do
  let s ← asStr j
  match s with
  | "rmoveto" => return some (.op .rmoveto)
  | "rlineto" => return some (.op .rlineto)
  | "rrcurveto" => return some (.op .rrcurveto)
  | "endchar" => return some (.op .endchar)
  | _ => match (asRat j) with
    | .ok v => return some (.num v)
    | .error _ => return none

def errJ : C01.Err → Json
  | .unsupported => "Unsupported" | .valueError => "ValueError" | .geom e => gerrJ e

/-- op "font": in = {tol, glyphs, skiparg, libskip, pre, cff, auto, infoD, infoN}; obs = {err} | {glyphs: [[name, ops, advance, program]...]}.
    The model's entry per glyph: [name, outline, advance, raw charstring program (`cffProgram`)]; `dec` = what the Lean
    Type 2 interpreter (`exec`) makes of each OBSERVED program: [name, outline | null, advance recovered from the width operand | null] -/
def font (req : Json) : R Reply := do
  let i ← field req "in"
  let tol ← asRat (← field i "tol")
  let gs ← asGlyphSet (← field i "glyphs")
  -- the caller's `skipExportGlyphs=` argument (null = not passed), the UFO's lib key, the custom restricted pre-filter
  let skiparg ← asOpt (asList asStr) (← field i "skiparg")
  let libskip ← asList asStr (← field i "libskip")
  let skip := effectiveSkip skiparg libskip
  let pf : Option Sel ← asOpt (fun j => do
    match ← asArr j with
    | [k, l] => match ← asStr k with
      | "include" => return Sel.incl (← asList asStr l)
      | "exclude" => return Sel.excl (← asList asStr l)
      | s => throw s!"pre {s}"
    | _ => throw "pre") (← field i "pre")
  let ver : C12.Ver := if (← asInt (← field i "cff")) == 2 then .v2 else .v1
  let auto ← asPair asInt asInt (← field i "auto")
  let dn := C12.defNom (← asOpt asRat (← field i "infoD")) (← asOpt asRat (← field i "infoN")) auto
  let obs ← field req "obs"
  let oerr ← asOpt asStr (← field obs "err")
  -- model
  match preprocessF pf skip gs with
  | .error e => return { model := Json.mkObj [("err", errJ e)], holds := oerr.isSome }
  | .ok pre =>
  let adv := pre.map (fun e => advance e.2)
  if adv.any (fun a => match a with | .error _ => true | .ok _ => false) then
    return { model := Json.mkObj [("err", "ValueError")], holds := oerr == some "ValueError" }
  let outs := pre.map (fun e => (e.1, cffOutline tol pre e.1, advance e.2))
  let progs := pre.map (fun e => (e.1, cffProgram ver tol dn.1 dn.2 pre e.1))
  match outs.find? (fun o => match o.2.1 with | .error _ => true | .ok _ => false) with
  | some (_, .error e, _) =>
    return { model := Json.mkObj [("err", errJ e)], holds := oerr.isSome }
  | _ =>
    let glyphsJ := listJ (fun (o : String × Except C01.Err (List Op) × Except C01.Err Int) =>
      Json.arr #[Json.str o.1, (match o.2.1 with | .ok ops => listJ opJ ops | .error _ => Json.null),
                 (match o.2.2 with | .ok a => intJ a | .error _ => Json.null),
                 (match alookup o.1 progs with | some (.ok t) => listJ tokJ t | _ => Json.null)]) outs
    match oerr with
    | some _ => return { model := Json.mkObj [("err", Json.null), ("glyphs", glyphsJ)], holds := false }
    | none =>
      let og ← asArr (← field obs "glyphs")
      let mut bad : List String := []
      let mut dec : List Json := []
      for o in og do
        match ← asArr o with
        | [n, ops, a, prog] =>
          let n ← asStr n
          let ops ← asList asOp ops
          let a ← asInt a
          let toks ← asList asTok prog
          let run := if toks.all Option.isSome then exec (toks.filterMap id) else none
          -- the advance a CFF 1 reader recovers from the charstring (popallWidth: nominalWidthX + args[0], else defaultWidthX)
          let wdec : Option Q := match run, ver with
            | some (_, some w), .v1 => some ((dn.2 : Q) + w)
            | some (_, none), .v1 => some (dn.1 : Q)
            | _, _ => none
          dec := dec ++ [Json.arr #[Json.str n, (match run with | some r => listJ opJ r.1 | none => Json.null), optJ ratJ wdec]]
          -- ... is an advance of the font too: it must be the rounded source width like hmtx's
          match wdec, gs.get? n with
          | some w, some g => if w != (otRound g.width : Q) && isExported skiparg libskip n then bad := bad ++ [n ++ ":charstring-width"]
          | _, _ => pure ()
          match gs.get? n with
          | some g => if !isExported skiparg libskip n || !(holdsOutline skip.isEmpty tol gs g ops && holdsAdvance g a) then bad := bad ++ [n]
          | none => if n != ".notdef" then bad := bad ++ [n]
        | _ => throw "glyph entry"
      let names := og.filterMap (fun o => match o.getArr? with | .ok a => (a[0]?.bind (fun j => j.getStr?.toOption)) | _ => none)
      -- "every exported glyph": exported = not named by the argument if one was passed (also an empty one), else not by the lib key
      let missing := if holdsExported skiparg libskip gs.names names then []
        else (gs.names.filter (fun n => names.contains n != isExported skiparg libskip n)).map (· ++ ":exported") ++ ["glyph-set"]
      let model := Json.mkObj [("err", Json.null), ("glyphs", glyphsJ), ("dec", Json.arr dec.toArray),
        ("dn", Json.arr #[intJ dn.1, intJ dn.2])]
      return { model, holds := bad.isEmpty && missing.isEmpty, info := strsJ (bad ++ missing),
               hyp := Json.bool (wfCert gs) }

def handle (op : String) (req : Json) : R Reply :=
  match op with
  | "font" => font req
  | _ => throw s!"C01: unknown op {op}"

end Ufo2ft.Drv.C01
