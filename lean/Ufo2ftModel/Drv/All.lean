import Ufo2ftModel.Drv.C03
import Ufo2ftModel.Drv.C04
namespace Ufo2ft.Drv
open Lean
def dispatch (p op : String) (req : Json) : R Reply :=
  match p with
  | "C03" => C03.handle op req
  | "C04" => C04.handle op req
  | _ => throw s!"unknown property {p}"
end Ufo2ft.Drv
