import Ufo2ftModel.Drv.Util
import Ufo2ftModel.Model.Geom
/-! JSON encoding of glyph sets, shared by the geometry drivers. -/
namespace Ufo2ft.Drv
open Lean Ufo2ft

def asSeg (j : Json) : R (Option Seg) := do
  if j.isNull then return none
  match ← asStr j with
  | "move" => return some .move
  | "line" => return some .line
  | "curve" => return some .curve
  | "qcurve" => return some .qcurve
  | s => throw s!"seg {s}"
def segJ : Option Seg → Json
  | none => Json.null
  | some .move => "move" | some .line => "line" | some .curve => "curve" | some .qcurve => "qcurve"

def asPt (j : Json) : R Pt := do
  match ← asArr j with
  | [x, y, s] => return ⟨← asRat x, ← asRat y, ← asSeg s⟩
  | _ => throw "pt"
def ptJ (p : Pt) : Json := Json.arr #[ratJ p.x, ratJ p.y, segJ p.seg]
def contourJ (c : Contour) : Json := listJ ptJ c

def asAffine (j : Json) : R Affine := do
  match ← asList asRat j with
  | [a, b, c, d, e, f] => return ⟨a, b, c, d, e, f⟩
  | _ => throw "affine"
def affineJ (t : Affine) : Json := Json.arr #[ratJ t.xx, ratJ t.xy, ratJ t.yx, ratJ t.yy, ratJ t.dx, ratJ t.dy]

def asComp (j : Json) : R Comp := do
  let (b, t) ← asPair asStr asAffine j
  return ⟨b, t⟩
def compJ (k : Comp) : Json := Json.arr #[Json.str k.base, affineJ k.t]

def asAnchor (j : Json) : R Anchor := do
  match ← asArr j with
  | [n, x, y] => return ⟨← asStr n, ← asRat x, ← asRat y⟩
  | _ => throw "anchor"
def anchorJ (a : Anchor) : Json := Json.arr #[Json.str a.name, ratJ a.x, ratJ a.y]

def asGlyph (j : Json) : R Glyph := do
  return { name := ← asStr (← field j "name"), width := ← asRat (← field j "width"),
           height := ← asRat (← field j "height"),
           contours := ← asList (asList asPt) (← field j "contours"),
           comps := ← asList asComp (← field j "comps"),
           anchors := ← asList asAnchor (← field j "anchors") }
def glyphJ (g : Glyph) : Json := Json.mkObj [("name", g.name), ("width", ratJ g.width), ("height", ratJ g.height),
  ("contours", listJ contourJ g.contours), ("comps", listJ compJ g.comps), ("anchors", listJ anchorJ g.anchors)]

def asGlyphSet (j : Json) : R GlyphSet := do
  let gs ← asList asGlyph j
  return gs.map (fun g => (g.name, g))
def glyphSetJ (gs : GlyphSet) : Json := listJ (fun e => glyphJ e.2) gs

def gerrJ : GErr → Json
  | .missing _ => "MissingComponentError" | .recursion => "RecursionError" | .cyclic => "InvalidFontData"
  | .valueError => "ValueError" | .assertion => "AssertionError" | .exception => "Exception"

end Ufo2ft.Drv
