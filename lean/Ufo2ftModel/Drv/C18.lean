import Ufo2ftModel.Drv.Util
import Ufo2ftModel.Spec.C18
namespace Ufo2ft.Drv.C18
open Lean Ufo2ft.Drv Ufo2ft.C18

def asAnchor (j : Json) : R Anchor := do
  match ← asArr j with
  | [n, x, y] => return { name := ← asOpt asStr n, x := ← asRat x, y := ← asRat y }
  | _ => throw "anchor: expected [name, x, y]"

def asGlyph (j : Json) : R GlyphIn := do
  let (n, a) ← asPair asStr (asList asAnchor) j
  return { name := n, anchors := a }

def asXY (j : Json) : R (Int × Int) := asPair asInt asInt j

def asRec (j : Json) : R Rec := do
  match ← asArr j with
  | [g, e, x] => return { glyph := ← asStr g, entry := ← asOpt asXY e, exit := ← asOpt asXY x }
  | _ => throw "rec: expected [glyph, entry, exit]"

def asLookup (j : Json) : R Lookup := do
  let (f, r) ← asPair asBool (asList asRec) j
  return { rtl := f, recs := r }

def asClassDef (j : Json) : R ClassDef := do
  match ← asArr j with
  | [b, l, m, c] => return { base := ← asList asStr b, ligature := ← asList asStr l,
                             mark := ← asList asStr m, component := ← asList asStr c }
  | _ => throw "classDef: expected 4 lists"

def xyJ (p : Int × Int) : Json := pairJ intJ intJ p
def recJ (r : Rec) : Json := Json.arr #[Json.str r.glyph, optJ xyJ r.entry, optJ xyJ r.exit]
def lookupJ (l : Lookup) : Json := Json.arr #[Json.bool l.rtl, listJ recJ l.recs]
def classDefJ (c : ClassDef) : Json := Json.arr #[strsJ c.base, strsJ c.ligature, strsJ c.mark, strsJ c.component]
def caretsJ (l : List (String × List Int)) : Json := listJ (pairJ Json.str (listJ intJ)) l
def asCarets (j : Json) : R (List (String × List Int)) := asList (asPair asStr (asList asInt)) j

structure Closure where
  rules : List Rule
  ltr0 : List String
  neutral0 : List String

def asRule (j : Json) : R Rule := do
  let (n, o) ← asPair (asList asStr) (asList asStr) j
  return { need := n, out := o }

/-- optional field "closure" of a font input: the GSUB rules the harness wrote and the cmap classification; with it
the left-to-right set is computed by the model (`classifyDir`) instead of being taken from ufo2ft -/
def readClosure (i : Json) : R (Option Closure) := do
  match (i.getObjVal? "closure").toOption with
  | none => return none
  | some Json.null => return none
  | some c =>
    let rules ← asList asRule (← field c "rules")
    let ltr0 ← asList asStr (← field c "ltr0")
    let neutral0 ← asList asStr (← field c "neutral0")
    let (s, n) := classifyDir rules ltr0 neutral0
    if !(closedUnder rules n && closedUnder rules (s ++ n)) then throw "C18: closure did not converge"
    return some { rules, ltr0, neutral0 }

def readInput (i : Json) : R (Input × UserGdef) := do
  let glyphs ← asList asGlyph (← field i "glyphs")
  let cats ← asList (asPair asStr asStr) (← field i "categories")
  let blocks ← asList (asPair asBool asBool) (← field i "blocks")
  let quant ← asOpt asRat (← field i "quant")
  let anyLtr ← asBool (← field i "anyLtrCp")
  let ltrGiven ← asOpt (asList asStr) (← field i "ltr")
  let ltr := match ← readClosure i with
    | some c => if anyLtr then some (classifyDir c.rules c.ltr0 c.neutral0).1 else none
    | none => ltrGiven
  let extras ← match (i.getObjVal? "extras").toOption with
    | some j => asList (asPair asStr asStr) j
    | none => pure []
  let todo ← asBool (← field i "cursTodo")
  let uc ← asList (asPair asStr asNat) (← field i "userClasses")
  let ucar ← asCarets (← field i "userCarets")
  return ({ glyphs, categories := cats, blocks := blocks.map (fun b => ⟨b.1, b.2⟩), quant,
            dir := { anyLtrCp := anyLtr, ltr, extras }, cursTodo := todo }, { classes := uc, carets := ucar })

/-- the input with same-named caret anchors collapsed to the first of each name, per glyph
(used only to classify a failure as the known duplicate-name shape) -/
def firstNamedOnly (g : GlyphIn) : GlyphIn :=
  { g with anchors := (g.anchors.foldl (fun (acc : List Anchor) a =>
      if (ownCaret a).isSome && acc.any (fun b => b.name == a.name) then acc else acc ++ [a]) []) }

/-- op "font": the whole observation of one compiled font -/
def font (req : Json) : R Reply := do
  let (i, u) ← readInput (← field req "in")
  let clo ← readClosure (← field req "in")
  let obs ← field req "obs"
  let oerr ← asOpt asStr (← field obs "err")
  let o := run i
  let mdir := match clo with
    | some c => let (s, n) := classifyDir c.rules c.ltr0 c.neutral0
                Json.mkObj [("ltr", strsJ (sortStr s)), ("neutral", strsJ (sortStr n))]
    | none => Json.null
  do
    let noUserCd := !userAnyClassDef i
    let noUserCar := !userAnyCarets i
    let mfont := Json.mkObj [
      ("classes", match o.gdef.classDef with
        | some cd => if noUserCd && cd != ⟨[], [], [], []⟩ then listJ (pairJ Json.str natJ) (fontClasses (glyphNames i) cd) else Json.null
        | none => Json.null),
      ("carets", match o.gdef.carets with
        | some lc => if noUserCar then caretsJ (fontCarets lc) else Json.null
        | none => if noUserCar then caretsJ [] else Json.null)]
    let mk (parts : Json) := Json.mkObj [("err", Json.null),
      ("fea", Json.mkObj [("classDef", optJ classDefJ o.gdef.classDef), ("carets", optJ caretsJ o.gdef.carets)]),
      ("font", mfont), ("curs", listJ lookupJ o.curs), ("dir", mdir), ("_parts", parts)]
    match oerr with
    | some _ => return { model := mk Json.null, holds := false }
    | none =>
      let fea ← field obs "fea"
      let ocd ← asOpt asClassDef (← field fea "classDef")
      let ocar ← asOpt asCarets (← field fea "carets")
      let fnt ← field obs "font"
      let fcl ← asList (asPair asStr asNat) (← field fnt "classes")
      let fcar ← asCarets (← field fnt "carets")
      let curs ← asList asLookup (← field obs "curs")
      let h1 := holdsClassesFea i ocd
      let h2 := holdsCaretsFea i ocar
      let h3 := holdsClassesFont i u fcl
      let h4 := holdsCaretsFont i u fcar
      let h5 := holdsCurs i curs
      -- the direction sets ufo2ft's classifyGlyphs computed (predicate on the observed sets)
      let h6 ← match clo with
        | none => pure true
        | some c => do
          let od ← field obs "dir"
          let ol ← asList asStr (← field od "ltr")
          let on ← asList asStr (← field od "neutral")
          pure (holdsDirSet c.rules c.ltr0 c.neutral0 ol on)
      -- classification helpers (not part of `holds`)
      let i1 := { i with glyphs := i.glyphs.map firstNamedOnly }
      let c1 := holdsCaretsFea i1 ocar && holdsCaretsFont i1 u fcar
      let i2 := { i with blocks := i.blocks.take 1 }
      let c2 := holdsClassesFea i2 ocd && holdsCaretsFea i2 ocar
      let parts := Json.mkObj [("classesFea", h1), ("caretsFea", h2), ("classesFont", h3), ("caretsFont", h4),
        ("curs", h5), ("dir", h6), ("caretsIfFirstNamed", c1), ("gdefIfFirstBlockOnly", c2)]
      return { model := mk parts, holds := h1 && h2 && h3 && h4 && h5 && h6 }

/-- op "anchor": `_getAnchor` + `quantize` called directly.  obs = null | [x, y] -/
def anchor (req : Json) : R Reply := do
  let i ← field req "in"
  let anchors ← asList asAnchor (← field i "anchors")
  let nm ← asStr (← field i "name")
  let quant ← asOpt asRat (← field i "quant")
  let obs ← asOpt (asPair asRat asRat) (← field req "obs")
  let m := getAnchor quant anchors nm
  return { model := optJ (pairJ ratJ ratJ) m, holds := holdsAnchor quant anchors nm obs }

/-- op "cats": `OpenTypeCategories.load`.  obs = five sorted lists -/
def cats (req : Json) : R Reply := do
  let i ← field req "in"
  let items ← asList (asPair asStr asStr) (← field i "categories")
  let obs ← asList (asList asStr) (← field req "obs")
  let c := loadCategories items
  let m := [c.unassigned, c.base, c.ligature, c.mark, c.component].map sortStr
  return { model := listJ strsJ m, holds := holdsCats items obs }

/-- op "pairs": `_getCursiveAnchorPairs`.  obs = {err} | {err: null, pairs} -/
def pairs (req : Json) : R Reply := do
  let i ← field req "in"
  let glyphs ← asList asGlyph (← field i "glyphs")
  let obs ← field req "obs"
  let oerr ← asOpt asStr (← field obs "err")
  let inp : Input := { glyphs, categories := [], blocks := [], quant := none, dir := { anyLtrCp := false, ltr := none }, cursTodo := true }
  let ps := cursivePairs (anchorNameSet glyphs)
  let model := Json.mkObj [("err", Json.null), ("pairs", listJ (pairJ Json.str Json.str) ps)]
  match oerr with
  | some _ => return { model, holds := false }
  | none =>
    let ops ← asList (asPair asStr asStr) (← field obs "pairs")
    return { model, holds := holdsPairs inp ops }

def asVCaret (j : Json) : R VCaret :=
  match j.getInt? with
  | .ok n => pure (.plain n)
  | .error _ => do return .var (← asList (asOpt asInt) j)

def vcaretJ : VCaret → Json
  | .plain n => intJ n
  | .var vals => listJ (optJ intJ) vals

/-- the glyph with, in every source, only the LAST caret anchor of each name kept (used only to classify a
failure as the known same-name shape of the variable path) -/
def lastNamedOnly (al : List Anchor) : List Anchor :=
  al.foldr (fun a (acc : List Anchor) =>
    if (ownCaret a).isSome && acc.any (fun b => b.name == a.name) then acc else a :: acc) []

/-- op "varcarets": the LigatureCaretByPos statements of a variable build.
in = {glyphs: [[name, [anchors of source 0, anchors of source 1, ...]]...], dflt}; obs = [[name, [caret...]]...] | {err} -/
def varcarets (req : Json) : R Reply := do
  let i ← field req "in"
  let dflt ← asNat (← field i "dflt")
  let gl ← asList (asPair asStr (asList (asList asAnchor))) (← field i "glyphs")
  let glyphs : List VarGlyph := gl.map (fun e => { name := e.1, sources := e.2, dflt })
  let m := glyphs.filterMap (fun g => if (glyphCaretSetVar g).isEmpty then none else some (g.name, glyphCaretsVar g))
  let model := listJ (pairJ Json.str (listJ vcaretJ)) m
  let obs ← field req "obs"
  match obs.getObjVal? "err" with
  | .ok _ => return { model, holds := false }
  | .error _ =>
    let o ← asList (asPair asStr (asList asVCaret)) obs
    let ok (gs : List VarGlyph) := gs.all (fun g => holdsCaretsVar g ((alookup g.name o).getD []))
    let names := decide ((o.map (·.1)).Nodup) && o.all (fun e => glyphs.any (fun g => g.name == e.1) && !e.2.isEmpty)
    let h := ok glyphs && names
    let h' := ok (glyphs.map (fun g => { g with sources := g.sources.map lastNamedOnly })) && names
    return { model, holds := h, info := Json.mkObj [("holdsIfLastNamedOnly", h')] }

def handle (op : String) (req : Json) : R Reply :=
  match op with
  | "font" => font req
  | "anchor" => anchor req
  | "cats" => cats req
  | "pairs" => pairs req
  | "varcarets" => varcarets req
  | _ => throw s!"C18: unknown op {op}"

end Ufo2ft.Drv.C18
