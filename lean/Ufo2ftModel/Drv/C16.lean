import Ufo2ftModel.Drv.Util
import Ufo2ftModel.Spec.C16
/-! JSON glue for C16.  Strings travel as arrays of code points (`{"s":[...]}`), numbers as exact rationals. -/
namespace Ufo2ft.Drv.C16
open Lean Ufo2ft.Drv Ufo2ft.C16

def lastComp (s : String) : String := (s.splitOn ".").getLast!
def attrName (a : Attr) : String := lastComp (reprStr a)
def fieldName (f : Field) : String := lastComp (reprStr f)
def attrTable : List (String × Attr) := Attr.all.map (fun a => (attrName a, a))
def fieldTable : List (String × Field) := Field.all.map (fun f => (fieldName f, f))

def asCps (j : Json) : R Str := do return (← asList asNat j).map Char.ofNat
def cpsJ (s : Str) : Json := listJ natJ (s.map Char.toNat)
def strJ (s : Str) : Json := Json.mkObj [("s", cpsJ s)]

def asVal (j : Json) : R Val := do
  if j.isNull then return .none
  match j with
  | .obj _ =>
    if let .ok v := j.getObjVal? "s" then return .str (← asCps v)
    if let .ok v := j.getObjVal? "l" then return .nums (← asList asRat v)
    if let .ok v := j.getObjVal? "recs" then
      return .recs (← asList (fun r => do
        match ← asArr r with
        | [a, b, c, d, s] => return ({ nameID := ← asNat a, platformID := ← asNat b, encodingID := ← asNat c,
                                       languageID := ← asNat d, string := ← asCps s } : NameRec)
        | _ => throw "name record") v)
    if let .ok v := j.getObjVal? "gasp" then return .gasp (← asList (asPair asRat (asList asRat)) v)
    throw "bad value object"
  | _ => return .num (← asRat j)

def valJ : Val → Json
  | .none => Json.null
  | .num q => ratJ q
  | .str s => strJ s
  | .nums l => Json.mkObj [("l", listJ ratJ l)]
  | .recs l => Json.mkObj [("recs", listJ (fun r => Json.arr #[natJ r.nameID, natJ r.platformID, natJ r.encodingID,
      natJ r.languageID, cpsJ r.string]) l)]
  | .gasp l => Json.mkObj [("gasp", listJ (pairJ ratJ (listJ ratJ)) l)]

def asInfo (j : Json) : R Info := do
  let kvs ← match j with
    | .obj m => pure (m.toList)
    | _ => throw "info must be an object"
  let l ← kvs.mapM (fun (k, v) => do
    match attrTable.lookup k with
    | some a => return (a, ← asVal v)
    | none => throw s!"unknown attribute {k}")
  return fun a => (l.lookup a).getD .none

def asEnv (j : Json) : R Env := do
  let tbl ← asList (asPair asNat asCps) (← field j "nfkd")
  let dates ← asList (asPair asCps asInt) (← field j "dates")
  return { nfkd := fun c => (tbl.lookup c.toNat).getD [c], tan := ← asRat (← field j "tan"),
           nowString := ← asCps (← field j "now"), dates := dates }

def fvalJ : FVal → Json
  | .none => Json.null
  | .unspecified => Json.null
  | .num q => ratJ q
  | .str s => strJ s
  | .nums l => listJ ratJ l

def asFVal (j : Json) : R FVal := do
  if j.isNull then return .none
  match j with
  | .obj _ => return .str (← asCps (← field j "s"))
  | .arr _ => return .nums (← asList asRat j)
  | _ => return .num (← asRat j)

def namesJ (t : NameTable) : Json :=
  listJ (fun e => Json.arr #[natJ e.1.id, natJ e.1.plat, natJ e.1.enc, natJ e.1.lang, cpsJ e.2])
    t

def asNames (j : Json) : R NameTable :=
  asList (fun r => do
    match ← asArr r with
    | [a, b, c, d, s] => return ((⟨← asNat a, ← asNat b, ← asNat c, ← asNat d⟩ : NameKey), ← asCps s)
    | _ => throw "name entry") j

def errJ : Err → Json
  | .recursion => "RecursionError" | .keyError => "KeyError" | .assertion => "AssertionError"
  | .valueError => "ValueError" | .indexError => "IndexError" | .unicodeEncode => "Other:UnicodeEncodeError" | .unicodeDecode => "Other:UnicodeDecodeError"

def outJ (o : Out) : Json :=
  Json.mkObj [("err", Json.null),
    ("fields", Json.mkObj ((Field.all.filter (fun f => o.fields f != .unspecified)).map (fun f => (fieldName f, fvalJ (o.fields f))))),
    ("names", namesJ o.names)]

def asOut (j : Json) : R Out := do
  let fj ← field j "fields"
  let l ← Field.all.mapM (fun f => do
    match fj.getObjVal? (fieldName f) with
    | .ok v => return (f, ← asFVal v)
    | .error _ => return (f, FVal.none))
  return { fields := fun f => (l.lookup f).getD .none, names := ← asNames (← field j "names") }

def partsJ (l : List (String × Bool)) : Json := strsJ ((l.filter (fun p => !p.2)).map (·.1))

def asCtx (i : Json) : R Ctx := do
  let otf ← asBool (← field i "otf")
  let reloaded ← asBool (← field i "reloaded")
  let written ← match i.getObjVal? "cffWritten" with | .ok v => asBool v | .error _ => pure reloaded
  -- "glyf" may be given separately (a CFF2 variable font: neither a CFF table nor TrueType outlines)
  let glyf ← match i.getObjVal? "glyf" with | .ok v => asBool v | .error _ => pure (!otf)
  return { otf := otf, reloaded := reloaded, glyf := glyf, cffWritten := written || reloaded }

/-- op "font": in = {info, env, otf, reloaded}; obs = {err} | {err:null, fields, names} -/
def font (req : Json) : R Reply := do
  let i ← field req "in"
  let info ← asInfo (← field i "info")
  let env ← asEnv (← field i "env")
  let ctx ← asCtx i
  let obs ← field req "obs"
  let oerr ← asOpt asStr (← field obs "err")
  let E := getV info env
  let wf := wfInfo info
  match compile info env ctx with
  | .error e =>
    -- the statement: spec-valid info compiles.  An error is acceptable only for invalid info.
    let ok := !wf && oerr.isSome
    return { model := Json.mkObj [("err", errJ e), ("_failed", partsJ [("compiles", ok)]), ("_wf", Json.bool wf)], holds := ok }
  | .ok o =>
    match oerr with
    | some _ => return { model := (outJ o).setObjVal! "_failed" (partsJ [("compiles", !wf)]), holds := !wf }
    | none =>
      let oo ← asOut obs
      let parts := [("rows", holdsRows E ctx oo.fields), ("derived", holdsDerived E info env ctx oo.fields),
                    ("names", holdsNames E env oo.names), ("psname", holdsGeneratedPsName E info)]
      return { model := ((outJ o).setObjVal! "_failed" (partsJ parts)).setObjVal! "_wf" (Json.bool wf),
               holds := parts.all (·.2) }

/-- op "attrs": obs = {attr: value} as returned by the real getAttrWithFallback for every attribute -/
def attrs (req : Json) : R Reply := do
  let i ← field req "in"
  let info ← asInfo (← field i "info")
  let env ← asEnv (← field i "env")
  let obs ← field req "obs"
  let as := Attr.all.filter (· != .openTypeGaspRangeRecords)
  let model := Json.mkObj (as.map (fun a =>
    (attrName a, match get fuel info env a with | .ok v => valJ v | .error e => Json.mkObj [("err", errJ e)])))
  let ol ← as.mapM (fun a => do
    let v ← field obs (attrName a)
    match v.getObjVal? "err" with
    | .ok _ => return (a, Val.none, true)
    | .error _ => return (a, ← asVal v, false))
  let Eo : Attr → Val := fun a => ((ol.lookup a).map (·.1)).getD .none
  let anyErr := ol.any (fun e => e.2.2)
  let parts := [("noerror", !anyErr || !wfInfo info), ("equations", anyErr || holdsAttrs info env Eo),
                ("psname", anyErr || holdsGeneratedPsName Eo info)]
  let eqfail := as.filter (fun a => !(if info a ≠ .none then Eo a == info a else fallbackEq info env Eo a))
  return { model := (model.setObjVal! "_failed" (partsJ parts)).setObjVal! "_eqfail" (strsJ (eqfail.map attrName)),
           holds := parts.all (·.2) }

/-- op "edges": obs = [[caller, callee]…] observed calls specialFallbacks[caller] → getAttrWithFallback(callee) -/
def edges (req : Json) : R Reply := do
  let obs ← asList (asPair asStr asStr) (← field req "obs")
  let es ← obs.mapM (fun (a, b) => do
    match attrTable.lookup a, attrTable.lookup b with
    | some x, some y => return (x, y)
    | _, _ => throw s!"unknown attribute in edge {a} {b}")
  let model := listJ (pairJ Json.str Json.str)
    (Attr.all.flatMap (fun a => (deps a).map (fun b => (attrName a, attrName b))))
  -- every observed call goes down in rank: the observed graph is acyclic
  return { model, holds := es.all (fun e => decide (rank e.2 < rank e.1)) }

/-- op "chars": in = {lo, nfkd:[null|[cps]]…} for the code points lo, lo+1, …; obs = [null|[cps]]… (null = "?")
    = normalizeNameForPostscript(chr(cp)) -/
def chars (req : Json) : R Reply := do
  let i ← field req "in"
  let lo ← asNat (← field i "lo")
  let tbl ← asList (asOpt asCps) (← field i "nfkd")
  let obs ← asList (asOpt asCps) (← field req "obs")
  let idx := List.range tbl.length
  let outs := (idx.zip tbl).map (fun (k, d) =>
    let c := Char.ofNat (lo + k)
    normalizeName (fun _ => d.getD [c]) [c])
  let q : Str := ['?']
  let model := listJ (fun (o : Str) => if o == q then Json.null else cpsJ o) outs
  let bad := (idx.zip obs).filter (fun (_, o) => !holdsPsName (o.getD q))
  return { model := Json.mkObj [("out", model), ("_bad", listJ natJ (bad.map (fun b => lo + b.1)))],
           holds := bad.isEmpty && obs.length == tbl.length }

/-- op "norm": in = {s, allowSpaces, nfkd}; obs = normalizeStringForPostscript(s, allowSpaces) -/
def norm (req : Json) : R Reply := do
  let i ← field req "in"
  let s ← asCps (← field i "s")
  let sp ← asBool (← field i "allowSpaces")
  let tbl ← asList (asPair asNat asCps) (← field i "nfkd")
  let nf : Char → Str := fun c => (tbl.lookup c.toNat).getD [c]
  let obs ← asCps (← field req "obs")
  return { model := Json.mkObj [("out", cpsJ (normalizePS nf sp s))], holds := holdsPsString sp obs }

/-- op "bits": in = {l, start, len}; obs = intListToNum(l, start, len) -/
def bitsOp (req : Json) : R Reply := do
  let i ← field req "in"
  let l ← asList asRat (← field i "l")
  let st ← asNat (← field i "start")
  let len ← asNat (← field i "len")
  let obs ← asNat (← field req "obs")
  return { model := natJ (intListToNum l st len), holds := obs == sumBits l st len }

/-- op "float": IEEE vocabulary check.  in = {a, b}; obs = [a*b, a/b, a+b, a-b, round(a,3)] -/
def floatOp (req : Json) : R Reply := do
  let i ← field req "in"
  let a ← asRat (← field i "a")
  let b ← asRat (← field i "b")
  let obs ← asList asRat (← field req "obs")
  let m := [fmul a b, fdiv a b, fadd a b, fsub a b, round3 a]
  return { model := listJ ratJ m, holds := obs == m }

/-- op "infocompiler": in = {base, over, env, envBase, otf, baseVertical}; obs as for "font" -/
def infoc (req : Json) : R Reply := do
  let i ← field req "in"
  let base ← asInfo (← field i "base")
  let over ← asInfo (← field i "over")
  let env ← asEnv (← field i "env")
  let envBase ← asEnv (← field i "envBase")
  let ctx ← asCtx i
  let bv ← asBool (← field i "baseVertical")
  let bg ← asBool (← field i "baseGasp")
  let obs ← field req "obs"
  let oerr ← asOpt asStr (← field obs "err")
  -- the shape of the repaired finding "infocompiler-missing-table", for classification of a recurrence
  let mt := Json.bool (missingTable (mergeInfo base over) env bv bg)
  if noOverrides over then
    -- `if self.info:` — no overrides, InfoCompiler does not run: the font is the compile of the source info
    let E := getV base envBase
    let wf := wfInfo base
    match compile base envBase ctx with
    | .error e =>
      let ok := !wf && oerr.isSome
      return { model := Json.mkObj [("err", errJ e), ("_failed", partsJ [("compiles", ok)]), ("_wf", Json.bool wf),
                                    ("_missingTable", Json.bool false)], holds := ok }
    | .ok o =>
      match oerr with
      | some _ => return { model := ((outJ o).setObjVal! "_failed" (partsJ [("compiles", !wf)])).setObjVal! "_wf" (Json.bool wf),
                           holds := !wf }
      | none =>
        let oo ← asOut obs
        let parts := [("rows", holdsRows E ctx oo.fields), ("derived", holdsDerived E base envBase ctx oo.fields),
                      ("names", holdsNames E envBase oo.names), ("psname", holdsGeneratedPsName E base)]
        return { model := ((outJ o).setObjVal! "_failed" (partsJ parts)).setObjVal! "_wf" (Json.bool wf),
                 holds := parts.all (·.2) }
  else
  match infoCompile base over env envBase ctx bv bg with
  | .error e =>
    -- the statement: valid info (here: valid base and valid overrides) is applied without error
    let wf := wfInfo base && wfInfo over
    return { model := Json.mkObj [("err", errJ e), ("_failed", partsJ [("compiles", !wf)]), ("_wf", Json.bool wf),
                                  ("_missingTable", mt)],
             holds := !wf && oerr.isSome }
  | .ok o =>
    match oerr with
    | some _ =>
      return { model := (((outJ o).setObjVal! "_failed" (partsJ [("compiles", false)])).setObjVal! "_wf"
                 (Json.bool (wfInfo base && wfInfo over))).setObjVal! "_missingTable" mt,
               holds := false }
    | none =>
      let oo ← asOut obs
      -- the overridden font shows, in every field InfoCompiler handles, the documented value for the merged info
      let merged := mergeInfo base over
      let E := getV merged env
      let ok := (rows.filter (fun r => infoCompilerField r.field && r.cond != .vertical)).all (fun r =>
        !condHolds r.cond E { ctx with otf := false, glyf := false, cffWritten := false } r.attr || oo.fields r.field == applyConv r.conv (E r.attr))
      -- (for a font built by varLib — stream "history" via compileVariable* — the harness leaves out the name records
      -- whose IDs fvar/STAT refer to: varLib adds those)
      let parts := [("rows", ok), ("names", holdsNamesOverride E (getV base envBase) env envBase oo.names),
                    ("psname", holdsGeneratedPsName E merged)]
      return { model := (outJ o).setObjVal! "_failed" (partsJ parts), holds := parts.all (·.2) }

/-- op "srcinfo": a history on ONE source object.  in = {base, envBase, otf, reloaded, steps:[{over, env, baseVertical,
    baseGasp}]}; obs = the source's font info read back after the whole history (same encoding as `base`).
    model = the source info `infoCompileSeq` leaves behind; holds = the observed info is the info before. -/
def srcinfo (req : Json) : R Reply := do
  let i ← field req "in"
  let base ← asInfo (← field i "base")
  let envBase ← asEnv (← field i "envBase")
  let ctx ← asCtx i
  let steps ← asList (fun j => do
    return ({ over := ← asInfo (← field j "over"), env := ← asEnv (← field j "env"),
              baseVertical := ← asBool (← field j "baseVertical"), baseGasp := ← asBool (← field j "baseGasp") } : SeqStep))
    (← field i "steps")
  let after ← asInfo (← field req "obs")
  let fin := match infoCompileSeq base envBase ctx steps with
    | .ok (_, fin) => fin
    | .error _ => base        -- an exception leaves the source as it is, too: nothing is ever written to it
  let infoJ (x : Info) : Json := Json.mkObj ((Attr.all.filter (fun a => x a != .none)).map (fun a => (attrName a, valJ (x a))))
  let changed := Attr.all.filter (fun a => after a != base a)
  return { model := Json.mkObj [("info", infoJ fin), ("_changed", strsJ (changed.map attrName))],
           holds := holdsSourceUnchanged base after }

def handle (op : String) (req : Json) : R Reply :=
  match op with
  | "font" => font req
  | "attrs" => attrs req
  | "edges" => edges req
  | "chars" => chars req
  | "norm" => norm req
  | "bits" => bitsOp req
  | "float" => floatOp req
  | "infocompiler" => infoc req
  | "srcinfo" => srcinfo req
  | _ => throw s!"C16: unknown op {op}"

end Ufo2ft.Drv.C16
