import Ufo2ftModel.Drv.Util
import Ufo2ftModel.Spec.C17
namespace Ufo2ft.Drv.C17
open Lean Ufo2ft.Drv Ufo2ft.C17

/-! JSON shapes (see harness/lib_C17.py):
  Stmt: ["L",uid] | ["C",uid,text] | ["B",uid|null,kind,tag,ext,[Item..]] | ["G",kind,gid,tag]
  Item: ["l",uid] | ["c",uid,text] | ["s",uid,[text..]] | ["g",gid] -/

def kindOf : String → R BKind
  | "feature" => pure .feature | "lookup" => pure .lookup | "table" => pure .table | "other" => pure .other
  | k => throw s!"bad kind {k}"
def kindJ : BKind → Json | .feature => "feature" | .lookup => "lookup" | .table => "table" | .other => "other"

def asItem (j : Json) : R Item := do
  match ← asArr j with
  | [t, a] => match ← asStr t with
    | "l" => return .leaf (← asNat a)
    | "g" => return .gen (← asNat a)
    | x => throw s!"bad item {x}"
  | [t, a, b] => match ← asStr t with
    | "c" => return .comment (← asNat a) (← asStr b)
    | "s" => return .sub (← asNat a) (← asList asStr b)
    | x => throw s!"bad item {x}"
  | _ => throw "bad item"

/-- texts leave the driver as code point lists: a raw U+2028/U+0085 in a reply would be taken for a line break -/
def textJ (t : String) : Json := listJ (fun c => natJ c.toNat) t.toList

def itemJ : Item → Json
  | .leaf u => Json.arr #["l", natJ u]
  | .gen g => Json.arr #["g", natJ g]
  | .comment u t => Json.arr #["c", natJ u, textJ t]
  | .sub u cs => Json.arr #["s", natJ u, strsJ cs]

def asStmt (j : Json) : R Stmt := do
  match ← asArr j with
  | [t, a] => match ← asStr t with
    | "L" => return .leaf (← asNat a)
    | x => throw s!"bad stmt {x}"
  | [t, a, b] => match ← asStr t with
    | "C" => return .comment (← asNat a) (← asStr b)
    | x => throw s!"bad stmt {x}"
  | [t, k, g, tag] => match ← asStr t with
    | "G" => match ← asStr k with
      | "feature" => return .gen (.feature (← asStr tag) (← asNat g))
      | "lookup" => return .gen (.lookup (← asNat g))
      | "def" => return .gen (.defn (← asNat g))
      | "blank" => return .gen .blank
      | "other" => return .gen (.other (← asNat g))
      | x => throw s!"bad gen {x}"
    | x => throw s!"bad stmt {x}"
  | [t, o, k, tag, ext, body] => match ← asStr t with
    | "B" =>
      let o ← asOpt asNat o
      return .block (match o with | some u => .user u | none => .split) (← kindOf (← asStr k)) (← asStr tag)
        (← asBool ext) (← asList asItem body)
    | x => throw s!"bad stmt {x}"
  | _ => throw "bad stmt"

def stmtJ : Stmt → Json
  | .leaf u => Json.arr #["L", natJ u]
  | .comment u t => Json.arr #["C", natJ u, textJ t]
  | .block o k tag ext body =>
    Json.arr #["B", (match o with | .user u => natJ u | .split => Json.null), kindJ k, tag, Json.bool ext, listJ itemJ body]
  | .gen (.feature tag g) => Json.arr #["G", "feature", natJ g, tag]
  | .gen (.lookup g) => Json.arr #["G", "lookup", natJ g, ""]
  | .gen (.defn g) => Json.arr #["G", "def", natJ g, ""]
  | .gen .blank => Json.arr #["G", "blank", natJ 0, ""]
  | .gen (.other g) => Json.arr #["G", "other", natJ g, ""]

def asFile := asList asStmt
def fileJ (f : File) : Json := listJ stmtJ f

def asFeat (j : Json) : R Feat := do let p ← asPair asStr asNat j; return ⟨p.1, p.2⟩

def gkindOf : String → R GKind
  | "gcd" => pure .glyphClassDef | "idx" => pure .caretByIndex | "pos" => pure .caretByPos | "other" => pure .other
  | k => throw s!"bad GDEF statement kind {k}"
def gkindJ : GKind → Json
  | .glyphClassDef => "gcd" | .caretByIndex => "idx" | .caretByPos => "pos" | .other => "other"

/-- gdef step: {type:"gdef", kinds:[[uid,kind]..] (the user's statements inside `table GDEF`, read from the user's text),
hasCats, carets (from the font description), base} -/
def asStep (j : Json) : R Step := do
  match ← asStr (← field j "type") with
  | "gdef" =>
    let kinds ← asList (fun x => do let p ← asPair asNat asStr x; return (p.1, ← gkindOf p.2)) (← field j "kinds")
    return .gdef { kinds, hasCats := ← asBool (← field j "hasCats"), carets := ← asNat (← field j "carets"),
                   base := ← asNat (← field j "base") }
  | _ =>
    return .writer {
      features := ← asList asStr (← field j "features"),
      skip := ← asBool (← field j "skip"),
      pattern := ← asBool (← field j "pattern"),
      produce := ← asList asFeat (← field j "produce"),
      lookups := ← asList asNat (← field j "lookups"),
      classDefs := ← asList asNat (← field j "classDefs"),
      anchorDefs := ← asList asNat (← field j "anchorDefs"),
      markClassDefs := ← asList asNat (← field j "markClassDefs") }

def ctxJ (c : Ctx) : Json :=
  Json.mkObj [("todo", strsJ (sortStr c.todo.eraseDups)),
              ("existing", strsJ (sortStr c.existing.eraseDups)),
              ("markers", optJ (fun l => listJ (fun (m : Marker) => Json.arr #[m.tag, natJ m.comment])
                  (l.mergeSort (fun a b => strLe a.tag b.tag))) c.insertComments)]

/-- the contexts each writer sees (model), given the files the model itself produces -/
def ctxs : List Step → File → List Json
  | [], _ => []
  | .writer w :: ss, f =>
    ctxJ (setContext w f) :: (match write w f with | .ok f' => ctxs ss f' | .error _ => [])
  | .gdef i :: ss, f => Json.null :: ctxs ss (gdefStep i f)

/-- the types of the statements each GDEF writer of the run generates (model), in the order it writes them -/
def gdefGens : List Step → File → List Json
  | [], _ => []
  | .writer w :: ss, f => (match write w f with | .ok f' => gdefGens ss f' | .error _ => [])
  | .gdef i :: ss, f => listJ gkindJ (gdefGenOf i f) :: gdefGens ss (gdefStep i f)

/-- `holdsGdefGen` for every GDEF writer of the run, on the OBSERVED files (the one before that writer) and the observed
types of the statements it added -/
def gdefHolds : List Step → File → List File → List (List GKind) → Bool
  | [], _, _, _ => true
  | .writer _ :: ss, _, o :: os, gs => gdefHolds ss o os gs
  | .gdef i :: ss, f, o :: os, g :: gs => holdsGdefGen i f g && gdefHolds ss o os gs
  | _, _, _, _ => false

/-- diagnostics only (classification of a failure): the run with the GDEF writer's OLD first-block-only scan - the
files after each writer and the types each GDEF writer generates -/
def runOld : List Step → File → Option (List File × List (List GKind))
  | [], _ => some ([], [])
  | .writer w :: ss, f =>
    match write w f with
    | .ok f' => (runOld ss f').map (fun r => (f' :: r.1, r.2))
    | .error _ => none
  | .gdef i :: ss, f =>
    let f' := gdefStepFirstBlock i f
    (runOld ss f').map (fun r => (f' :: r.1, gdefGenOfFirstBlock i f :: r.2))

/-- op "run": in = {file, steps}; obs = {err, files:[file after each writer], ctx:[…]} -/
def run (req : Json) : R Reply := do
  let i ← field req "in"
  let f ← asFile (← field i "file")
  let steps ← asList asStep (← field i "steps")
  let obs ← field req "obs"
  let oerr ← asOpt asStr (← field obs "err")
  let cj := Json.arr (ctxs steps f).toArray
  let gj := Json.arr (gdefGens steps f).toArray
  match runAll steps f with
  | .error _ =>
    return { model := Json.mkObj [("err", "ValueError"), ("files", Json.null), ("ctx", cj), ("gdef", gj)], holds := oerr == some "ValueError" }
  | .ok outs =>
    let model := Json.mkObj [("err", Json.null), ("files", listJ fileJ outs), ("ctx", cj), ("gdef", gj)]
    match oerr with
    | some _ => return { model, holds := false }
    | none =>
      let ofiles ← asList asFile (← field obs "files")
      -- end-to-end observations made by the harness on the compiled font / feature text (all must be true)
      let flagsN : List (String × Bool) ← match obs.getObjVal? "flags" with
        | .ok fl => asList (asPair asStr asBool) fl
        | .error _ => pure []
      let flags := flagsN.map (·.2)
      -- text level: the user's statements (with the names of the enclosing blocks) are a subsequence of the output's
      let ut : List String ← match obs.getObjVal? "utext" with | .ok x => asList asStr x | .error _ => pure []
      let ot : List String ← match obs.getObjVal? "otext" with | .ok x => asList asStr x | .error _ => pure []
      let og : List (List GKind) ← match obs.getObjVal? "gdef" with
        | .ok x => asList (asList (fun k => do gkindOf (← asStr k))) x
        | .error _ => pure []
      let holds := holdsRun steps f ofiles && holdsFinal f ofiles && gdefHolds steps f ofiles og &&
                   flags.all id && ut.isSublist ot
      -- the observed run is, object for object, the run of the old first-block-only scan, and nothing but the GDEF
      -- part of the property fails
      let oldScan := !holds && runOld steps f == some (ofiles, og) && holdsFinal f ofiles && ut.isSublist ot &&
                     (flagsN.filter (fun p => !p.1.startsWith "gdef_")).all (·.2)
      return { model, holds, info := Json.mkObj [("firstBlockScanOnly", Json.bool oldScan)] }

/-- op "markers": in = {texts}; obs = [bool] (does collectInsertMarkers pick a comment with this text up) -/
def markers (req : Json) : R Reply := do
  let ts ← asList asStr (← field (← field req "in") "texts")
  let obs ← asList asBool (← field req "obs")
  -- declaratively: after the leading white space comes the literal, in exactly this case
  let want (t : String) : Bool :=
    let ws := t.toList.takeWhile isPyWs
    (t.toList.drop ws.length).take 16 == "# Automatic Code".toList
  return { model := listJ Json.bool (ts.map isMarker), holds := obs == ts.map want }

def asW (j : Json) : R (Nat × String) := asPair asNat asStr j
def asWArg (j : Json) : R WArg := do
  if j.isNull then return .ellipsis
  let p ← asW j
  return .writer p.1 p.2
def wJ (l : List (Nat × String)) : Json := listJ (pairJ natJ Json.str) l

/-- op "writers": in = {arg: null|[null|[id,tag]..], lib: null|[[id,tag]..], dflt:[[id,tag]..]}; obs = {err}|{list} -/
def writers (req : Json) : R Reply := do
  let i ← field req "in"
  let arg ← asOpt (asList asWArg) (← field i "arg")
  let lib ← asOpt (asList asW) (← field i "lib")
  let dflt ← asList asW (← field i "dflt")
  let obs ← field req "obs"
  let oerr ← asOpt asStr (← field obs "err")
  let m := initFeatureWriters arg lib dflt
  let model := match m with
    | .error _ => Json.mkObj [("err", "ValueError"), ("list", Json.null)]
    | .ok l => Json.mkObj [("err", Json.null), ("list", wJ l)]
  match oerr with
  | some e =>
    return { model, holds := e == "ValueError" && holdsWriters arg lib dflt (.error .ellipsisTwice) }
  | none =>
    let l ← asList asW (← field obs "list")
    return { model, holds := holdsWriters arg lib dflt (.ok l) }

/-- op "shipped": obs = [[class, tableTag]..] of FeatureCompiler.defaultFeatureWriters -/
def shipped (req : Json) : R Reply := do
  let obs ← asList (asPair asStr asStr) (← field req "obs")
  return { model := listJ (pairJ Json.str Json.str) shippedWriters, holds := obs.all (fun w => w.2 != "GSUB") }

def handle (op : String) (req : Json) : R Reply :=
  match op with
  | "run" => run req
  | "markers" => markers req
  | "writers" => writers req
  | "shipped" => shipped req
  | _ => throw s!"C17: unknown op {op}"

end Ufo2ft.Drv.C17
