import Lean.Data.Json
import Ufo2ftModel.Basic
/-! JSON glue shared by the per-property drivers. Not part of any theorem. -/
namespace Ufo2ft.Drv
open Lean

abbrev R := Except String

def field (j : Json) (k : String) : R Json := j.getObjVal? k
def asStr (j : Json) : R String := j.getStr?
def asNat (j : Json) : R Nat := j.getNat?
def asInt (j : Json) : R Int := j.getInt?
def asBool (j : Json) : R Bool := j.getBool?
def asArr (j : Json) : R (List Json) := do return (← j.getArr?).toList
def asList (f : Json → R α) (j : Json) : R (List α) := do (← asArr j).mapM f
def asOpt (f : Json → R α) (j : Json) : R (Option α) := if j.isNull then pure none else some <$> f j
def asPair (f : Json → R α) (g : Json → R β) (j : Json) : R (α × β) := do
  match ← asArr j with
  | [a, b] => return (← f a, ← g b)
  | _ => throw "expected pair"

/-- exact rationals travel as "n/d" strings (or plain integers) -/
def asRat (j : Json) : R Q := do
  match j with
  | .str s =>
    match s.splitOn "/" with
    | [n] => match n.toInt? with
      | some i => return (i : Q)
      | none => throw s!"bad rat {s}"
    | [n, d] => match n.toInt?, d.toNat? with
      | some i, some k => if k == 0 then throw "zero den" else return (Rat.divInt i k)
      | _, _ => throw s!"bad rat {s}"
    | _ => throw s!"bad rat {s}"
  | _ => do let i ← j.getInt?; return (i : Q)

def ratJ (q : Q) : Json :=
  if q.den == 1 then Json.str (toString q.num) else Json.str s!"{q.num}/{q.den}"

def strsJ (l : List String) : Json := Json.arr (l.map Json.str).toArray
def listJ (f : α → Json) (l : List α) : Json := Json.arr (l.map f).toArray
def optJ (f : α → Json) : Option α → Json | none => Json.null | some a => f a
def natJ (n : Nat) : Json := Json.num (JsonNumber.fromNat n)
def intJ (n : Int) : Json := Json.num (JsonNumber.fromInt n)
def pairJ (f : α → Json) (g : β → Json) (p : α × β) : Json := Json.arr #[f p.1, g p.2]

/-- a per-op handler gets the whole request object and returns (model output, holds). -/
structure Reply where
  model : Json
  holds : Bool
  info : Json := Json.null     -- optional diagnostics (e.g. which glyphs fail), used to classify failures
  hyp : Json := Json.null      -- optional: did this input satisfy the hypotheses of the property's main theorem?

def Reply.toJson (r : Reply) : Json :=
  Json.mkObj [("model", r.model), ("holds", Json.bool r.holds), ("info", r.info), ("hyp", r.hyp)]

end Ufo2ft.Drv
