import Ufo2ftModel.Drv.GeomJ
import Ufo2ftModel.Spec.C02
import Ufo2ftModel.Spec.C02Drop
import Ufo2ftModel.Spec.C02Flags
import Ufo2ftModel.Spec.Good
namespace Ufo2ft.Drv.C02
open Lean Ufo2ft Ufo2ft.Drv Ufo2ft.C02

def ttPointJ (p : TTPoint) : Json := Json.arr #[intJ p.x, intJ p.y, Json.bool p.on]
def asTTPoint (j : Json) : R TTPoint := do
  match ← asArr j with
  | [x, y, o] => return ⟨← asInt x, ← asInt y, ← asBool o⟩
  | _ => throw "ttpoint"
def ttCompJ (k : TTComp) : Json :=
  Json.arr #[Json.str k.base, intJ k.dx, intJ k.dy, Json.arr #[ratJ k.lin.1, ratJ k.lin.2.1, ratJ k.lin.2.2.1, ratJ k.lin.2.2.2]]
def asTTComp (j : Json) : R TTComp := do
  match ← asArr j with
  | [b, x, y, l] =>
    match ← asList asRat l with
    | [a, b', c, d] => return ⟨← asStr b, ← asInt x, ← asInt y, (a, b', c, d)⟩
    | _ => throw "lin"
  | _ => throw "ttcomp"

def glyphOutJ (name : String) (cubic : Bool) (g : TTGlyph) : Json :=
  if cubic then Json.mkObj [("name", name), ("kind", "cubic")] else
  match g with
  | .simple cs => Json.mkObj [("name", name), ("kind", "simple"), ("contours", listJ (listJ ttPointJ) cs)]
  | .composite ks => Json.mkObj [("name", name), ("kind", "composite"), ("comps", listJ ttCompJ ks)]

/-- op "font" -/
def font (req : Json) : R Reply := do
  let i ← field req "in"
  let gs ← asGlyphSet (← field i "glyphs")
  let o : Opts := { convertCubics := ← asBool (← field i "convertCubics"),
                    reverseDirection := ← asBool (← field i "reverseDirection"),
                    flatten := ← asBool (← field i "flatten") }
  let skip ← match i.getObjVal? "skip" with
    | .ok j => asList asStr j
    | .error _ => pure []
  -- `dropImpliedOnCurves=True`: the glyph is asked from the pen with the option on
  let drop ← match i.getObjVal? "drop" with
    | .ok j => asBool j
    | .error _ => pure false
  let obs ← field req "obs"
  let oerr ← asOpt asStr (← field obs "err")
  match preprocessSkip o skip gs with
  | .error e => return { model := Json.mkObj [("err", gerrJ e)], holds := oerr.isSome }
  | .ok pre =>
    let outs := pre.map (fun (n, g) => glyphOutJ n (g.contours.any hasCubic) (if drop then ttGlyphDrop o g else ttGlyph o g))
    let mp := maxp pre
    let model := Json.mkObj [("err", Json.null), ("glyphs", Json.arr outs.toArray),
      ("maxp", Json.mkObj [("elements", natJ mp.maxComponentElements), ("depth", natJ mp.maxComponentDepth)])]
    match oerr with
    | some _ => return { model, holds := false }
    | none =>
      let order ← asList asStr (← field obs "order")
      let og ← asArr (← field obs "glyphs")
      let mpo ← field obs "maxp"
      let oel ← asNat (← field mpo "elements")
      let odp ← asNat (← field mpo "depth")
      let mut bad : List String := []
      let mut shadow : GlyphSet := []   -- the observed component structure, for the maxp check
      -- every exported source glyph is in the compiled font, no skipped one is
      for n in gs.names do
        if !skip.contains n && !order.contains n then bad := bad ++ [n]
      for j in og do
        let n ← asStr (← field j "name")
        let kind ← asStr (← field j "kind")
        if skip.contains n then bad := bad ++ [n]
        match gs.get? n with
        | none =>
          if n != ".notdef" then bad := bad ++ [n]
          shadow := shadow ++ [(n, ⟨n, 0, 0, [[]], [], []⟩)]
        | some g =>
          if kind == "simple" then
            let cs ← asList (asList asTTPoint) (← field j "contours")
            shadow := shadow ++ [(n, ⟨n, 0, 0, [[]], [], []⟩)]
            let r := renderGlyph gs g
            if r.any hasCubic then
              -- cubic source: structure and the measured deviation from the source curve
              let dev ← asRat (← field j "maxdev")
              let tol ← asRat (← field j "tol")
              if !(cs.length == r.length && decide (dev ≤ tol)) then bad := bad ++ [n]
            else if drop then
              if !(holdsSimpleDrop o gs g cs && !(isMixedOrSimple g == false)) then bad := bad ++ [n]
            else if !skip.isEmpty then
              if !(holdsSimpleSkip o gs g cs) then bad := bad ++ [n]
            else if !(holdsSimple o gs g cs && !(isMixedOrSimple g == false)) then bad := bad ++ [n]
          else
            let ks ← asList asTTComp (← field j "comps")
            shadow := shadow ++ [(n, ⟨n, 0, 0, [], ks.map (fun k => ⟨k.base, Affine.id⟩), []⟩)]
            if !skip.isEmpty then
              if !(holdsCompositeSkip skip gs g ks order) then bad := bad ++ [n]
            else if !(holdsComposite gs g o.flatten ks order && !isMixedOrSimple g) then bad := bad ++ [n]
      let smp := maxp shadow
      let okMaxp := oel == smp.maxComponentElements && odp == smp.maxComponentDepth
      if !okMaxp then bad := bad ++ ["<maxp>"]
      return { model, holds := bad.isEmpty, info := strsJ bad, hyp := Json.bool (wfCert gs) }

def asQPt (j : Json) : R QPt := do
  match ← asArr j with
  | [x, y, o] => return ⟨← asRat x, ← asRat y, ← asBool o⟩
  | _ => throw "qpt"

/-- op "joint": one glyph of a variable font built with `dropImpliedOnCurves=True`.
    in: masters = per master the glyph's source contours (point-pen form), the pre-processor options, the index of the
    default master; or (`direct`) the masters' glyf contours as compiled by the implementation without dropping.
    obs: the default master's glyf contours in the variable font + the point counts of its gvar tuples. -/
def joint (req : Json) : R Reply := do
  let i ← field req "in"
  let direct ← match i.getObjVal? "direct" with
    | .ok j => asBool j
    | .error _ => pure false
  let dflt ← asNat (← field i "dflt")
  let masters : List QGlyph ←
    if direct then asList (asList (asList asQPt)) (← field i "masters")
    else do
      let o : Opts := { convertCubics := ← asBool (← field i "convertCubics"),
                        reverseDirection := ← asBool (← field i "reverseDirection"), flatten := false }
      let ms ← asList (asList (asList asPt)) (← field i "masters")
      pure (ms.map (fun g => g.map (fun c => toQPts (ttContour o c))))
  let model := vfDefault masters dflt
  let obs ← field req "obs"
  let oerr ← asOpt asStr (← field obs "err")
  -- the non-default masters at whose locations the variable font was instantiated
  let ks ← match i.getObjVal? "inst" with
    | .ok j => asList asNat j
    | .error _ => pure []
  let mj := Json.mkObj [("err", Json.null), ("contours", listJ (listJ ttPointJ) model),
    ("inst", listJ (fun k => Json.arr #[natJ k, listJ (listJ ttPointJ) (vfMaster masters dflt k)]) ks)]
  match oerr with
  | some _ => return { model := mj, holds := false }
  | none =>
    let cs ← asList (asList asTTPoint) (← field obs "contours")
    let gv ← asList asNat (← field obs "gvar")
    let insts ← match obs.getObjVal? "inst" with
      | .ok j => asList (asPair asNat (asList (asList asTTPoint))) j
      | .error _ => pure []
    let npts := (cs.map List.length).foldl (· + ·) 0
    -- every variation tuple addresses exactly the points that are left (+ 4 phantom points)
    let gvOk := gv.all (fun k => k == npts + 4)
    let dropped := ((masters.getD dflt []).map List.length).foldl (· + ·) 0 - npts
    let simple := simpleMasters masters
    let compatible := simple.all (fun g => shape g == shape (simple.headD []))
    -- "dropping jointly keeps every master's outline", end to end: the instance at master k's location is master k's own
    -- points (those the default entry's flags pick), rounded, within 1 unit
    let instOk := !compatible || (masters.getD dflt []).isEmpty ||
      insts.all (fun e => (masters.getD e.1 []).isEmpty || holdsInstance 1 (masters.getD e.1 []) cs e.2)
    let hj := holdsJoint masters dflt cs
    let why := (if hj then [] else ["joint"]) ++ (if gvOk then [] else ["gvar-count"]) ++ (if instOk then [] else ["instance"])
    return { model := mj, holds := hj && gvOk && instOk,
             info := Json.mkObj [("dropped", natJ dropped), ("why", strsJ why)] }


/-! ### op "flags": the glyf flag post-processing (InstructionCompiler._set_simple_flags / _set_composite_flags) -/
section FlagsOp
open Ufo2ft.C02.Flags
def asUfoFlags (j : Json) : R (String × UfoFlags) := do
  let n ← asStr (← field j "name")
  let ovl ← asOpt asBool (← field j "ovl")
  let ids ← asList (asOpt asStr) (← field j "ids")
  let ol ← asOpt (asList (fun e => do
    match ← asArr e with
    | [i, r, m] => return ((← asStr i), (⟨← asOpt asBool r, ← asOpt asBool m⟩ : ObjLib))
    | _ => throw "objlib")) (← field j "objlibs")
  return (n, ⟨ovl, ids, ol⟩)

def compTTJ (c : CompTT) : Json :=
  Json.arr #[Json.str c.base, intJ c.dx, intJ c.dy, Json.arr #[ratJ c.lin.1, ratJ c.lin.2.1, ratJ c.lin.2.2.1, ratJ c.lin.2.2.2], natJ c.flags]
def asCompTT (j : Json) : R CompTT := do
  match ← asArr j with
  | [b, x, y, l, f] =>
    match ← asList asRat l with
    | [a, b', c, d] => return ⟨← asStr b, ← asInt x, ← asInt y, (a, b', c, d), ← asNat f⟩
    | _ => throw "lin"
  | _ => throw "comptt"
def simpleTTJ (name : String) (g : SimpleTT) : Json :=
  Json.mkObj [("name", name), ("kind", "simple"), ("nc", intJ g.numberOfContours),
    ("coords", listJ (fun (p : Int × Int) => Json.arr #[intJ p.1, intJ p.2]) g.coords), ("ends", listJ natJ g.endPts), ("flags", listJ natJ g.flags)]
def asSimpleTT (j : Json) : R SimpleTT := do
  return ⟨← asInt (← field j "nc"), ← asList (asPair asInt asInt) (← field j "coords"), ← asList asNat (← field j "ends"),
          ← asList asNat (← field j "flags")⟩

/-- in: the "font" input + `flagsIn` = {auto, widths: [[glyph, advance]], glyphs: [{name, ovl, ids, objlibs}]} (what the UFO
    glyphs' libs say; hmtx advances of the compiled font).  The pen's output is the MODEL's (`ttGlyph` of the pre-processed glyph:
    flag byte = on-curve bit, component flags = ROUND_XY_TO_GRID); model = `setSimpleFlags` / `setCompositeFlags` of it;
    obs: per glyph the glyf entry's coordinates, contour ends and flag bytes, or the component records with their flag words
    (masked with the bits the glyf compiler does not compute itself, 0x1E14). -/
def flags (req : Json) : R Reply := do
  let i ← field req "in"
  let gs ← asGlyphSet (← field i "glyphs")
  let o : Opts := { convertCubics := ← asBool (← field i "convertCubics"),
                    reverseDirection := ← asBool (← field i "reverseDirection"),
                    flatten := ← asBool (← field i "flatten") }
  let fi ← field i "flagsIn"
  let auto ← asBool (← field fi "auto")
  let widths ← asList (asPair asStr asInt) (← field fi "widths")
  let ufl ← asList asUfoFlags (← field fi "glyphs")
  let adv := fun n => alookup n widths
  let obs ← field req "obs"
  let oerr ← asOpt asStr (← field obs "err")
  match preprocess o gs with
  | .error e => return { model := Json.mkObj [("err", gerrJ e)], holds := oerr.isSome }
  | .ok pre =>
    -- (name, pen output, post-processed)
    let outs : List (String × (SimpleTT ⊕ List CompTT) × (SimpleTT ⊕ List CompTT)) := pre.map (fun (n, g) =>
      match ttGlyph o g with
      | .simple cs =>
        let pen := penSimple cs
        (n, .inl pen, .inl (match alookup n ufl with | some u => setSimpleFlags u.overlap pen | none => pen))
      | .composite ks =>
        let pen := penComps ks
        (n, .inr pen, .inr (match alookup n ufl with
          | some u => setCompositeFlags auto adv ((adv n).getD 0) u pen
          | none => pen)))
    let model := Json.mkObj [("err", Json.null), ("glyphs", listJ (fun (e : String × (SimpleTT ⊕ List CompTT) × (SimpleTT ⊕ List CompTT)) =>
      match e.2.2 with
      | .inl s => simpleTTJ e.1 s
      | .inr cs => Json.mkObj [("name", e.1), ("kind", "composite"), ("comps", listJ compTTJ cs)]) outs)]
    match oerr with
    | some _ => return { model, holds := false }
    | none =>
      let og ← asArr (← field obs "glyphs")
      let mut bad : List String := []
      for j in og do
        let n ← asStr (← field j "name")
        let kind ← asStr (← field j "kind")
        match alookup n outs with
        | none => if n != ".notdef" then bad := bad ++ [n]
        | some (pen, _) =>
          match pen, kind with
          | .inl p, "simple" =>
            let out ← asSimpleTT j
            let lib := match alookup n ufl with | some u => u.overlap | none => none
            if !(holdsSimpleFlags lib p out) then bad := bad ++ [n]
          | .inr p, "composite" =>
            let out ← asList asCompTT (← field j "comps")
            let ok := match alookup n ufl with
              | some u => holdsCompositeFlags auto u p out
              | none => out == p
            if !ok then bad := bad ++ [n]
          | _, _ => bad := bad ++ [n]
      return { model, holds := bad.isEmpty, info := strsJ bad }
end FlagsOp

def handle (op : String) (req : Json) : R Reply :=
  match op with
  | "font" => font req
  | "joint" => joint req
  | "flags" => flags req
  | _ => throw s!"C02: unknown op {op}"

end Ufo2ft.Drv.C02
