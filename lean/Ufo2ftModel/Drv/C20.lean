import Ufo2ftModel.Drv.Util
import Ufo2ftModel.Spec.C20
namespace Ufo2ft.Drv.C20
open Lean Ufo2ft.Drv Ufo2ft.C20

def asLk (j : Json) : R Lk := do
  match ← asArr j with
  | [a, b] => return { id := ← asNat a, gpos := ← asBool b }
  | _ => throw "lk"

def asStmt (j : Json) : R Stmt := do
  match ← asArr j with
  | [k, a] => if (← asStr k) == "s" then return .script (← asStr a) else throw "stmt"
  | [k, a, b] =>
    let k ← asStr k
    if k == "l" then return .language (← asStr a) (← asBool b)
    else if k == "k" then return .lookup { id := ← asNat a, gpos := ← asBool b }
    else throw "stmt"
  | _ => throw "stmt"

def asBlock (j : Json) : R Block := do
  let (t, s) ← asPair asStr (asList asStmt) j
  return { tag := t, stmts := s }

def asLS : Json → R LS := asPair asStr asStr

def asInfo (j : Json) : R ScriptInfo := do
  return { dir := ← asStr (← field j "dir"), dist := ← asBool (← field j "dist"),
           tags := ← asList asStr (← field j "tags") }

def asLookups : Json → R Lookups := asList (asPair asStr (asList (asPair asStr asLk)))

def asKern (j : Json) : R KernIn := do
  return { todo := ← asList asStr (← field j "todo"), lookups := ← asLookups (← field j "lookups"),
           info := ← asList (asPair asStr asInfo) (← field j "info") }

def asGen (j : Json) : R GenFeat := do
  match ← asArr j with
  | [t, l, a] => return { tag := ← asStr t, lookups := ← asList asLk l, acts := ← asList asStr a }
  | _ => throw "gen"

def asIn (j : Json) : R In := do
  return { langsys := ← asList asLS (← field j "langsys"), kern := ← asKern (← field j "kern"),
           gen := ← asList asGen (← field j "gen"), user := ← asList asBlock (← field j "user"),
           fontScripts := ← asList asStr (← field j "fontScripts") }

def asKey (j : Json) : R Key := do
  match ← asArr j with
  | [a, b, c] => return (← asStr a, ← asStr b, ← asStr c)
  | _ => throw "key"

def stmtJ : Stmt → Json
  | .script s => Json.arr #["s", s]
  | .language l i => Json.arr #["l", l, Json.bool i]
  | .lookup k => Json.arr #["k", natJ k.id, Json.bool k.gpos]

def keyJ (k : Key) : Json := Json.arr #[k.1, k.2.1, k.2.2]

def errJ : Err → Json | .assertion => "AssertionError" | .featureLib => "FeatureLibError"

def failJ (i : In) (fl : Key × Tag) : Json :=
  Json.arr #[fl.1.1, fl.1.2.1, fl.1.2.2, fl.2,
    if shapeA i fl then "A" else if shapeB i fl then "B" else "other"]

/-- op "addrefs": ast.addLookupReferences -/
def addrefs (req : Json) : R Reply := do
  let i ← field req "in"
  let lks ← asList asLk (← field i "lookups")
  let script ← asStr (← field i "script")
  let langs ← asList asStr (← field i "languages")
  let ex ← asBool (← field i "exclude")
  let obs ← asList asStmt (← field req "obs")
  return { model := listJ stmtJ (addLookupReferences lks script langs ex),
           holds := lks.all (fun k => obs.contains (.lookup k)) && (script == "" || startsWithScript obs) }

/-- op "register": KernFeatureWriter._registerLookups (with `langs` given, or derived from `langsys`) -/
def register (req : Json) : R Reply := do
  let i ← field req "in"
  let isKern ← asBool (← field i "kern")
  let lookups ← asLookups (← field i "lookups")
  let info ← asList (asPair asStr asInfo) (← field i "info")
  let lsJ ← field i "langsys"
  let (langs, langsys) ← (if lsJ.isNull then do
      let l ← asList (asPair asStr (asList asStr)) (← field i "langs")
      pure (l, l.flatMap (fun p => p.2.map (fun x => (p.1, x))))
    else do
      let ls ← asList asLS lsJ
      pure (langsOf ls, ls) : R (List (Tag × List Tag) × List LS))
  let obs ← field req "obs"
  let oerr ← asOpt asStr (← field obs "err")
  let bad := (registrations isKern lookups langs info).any (fun r => r.2.1.isEmpty)
  let model := match registerLookups isKern lookups langs info with
    | .error e => Json.mkObj [("err", errJ e)]
    | .ok s => Json.mkObj [("err", Json.null), ("stmts", listJ stmtJ s)]
  match oerr with
  | some e => return { model, holds := bad && e == "AssertionError" }
  | none =>
    let st ← asList asStmt (← field obs "stmts")
    return { model, holds := holdsRegister langsys st }

def reachReply (i : In) (m : Except Err (List Key)) (obs : Json) : R Reply := do
  let oerr ← asOpt asStr (← field obs "err")
  match oerr with
  | some e =>
    let model := match m with
      | .error e => Json.mkObj [("err", errJ e)]
      | .ok r => Json.mkObj [("err", Json.null), ("reach", listJ keyJ r)]
    return { model, holds := e == "FeatureLibError" && !wfLangsys i.langsys }
  | none =>
    let keys ← asList asKey (← field obs "reach")
    let fl := Json.arr ((failures i keys).map (failJ i) ++
      (langFailures i keys).map (fun k => Json.arr #[k.1, k.2.1, k.2.2, "kerning-of-dflt", "lang"])).toArray
    let model := match m with
      | .error e => Json.mkObj [("err", errJ e), ("fails", fl)]
      | .ok r => Json.mkObj [("err", Json.null), ("reach", listJ keyJ r), ("fails", fl)]
    return { model, holds := wfLangsys i.langsys && holds i keys }

/-- op "e2e": languagesystems + writers' data -> compiled ScriptList -/
def e2e (req : Json) : R Reply := do
  let i ← asIn (← field req "in")
  reachReply i (reach i) (← field req "obs")

/-- op "build": the final feature file (abstracted) -> compiled ScriptList; `spec` = the e2e input -/
def buildOp (req : Json) : R Reply := do
  let inp ← field req "in"
  let i ← asIn (← field inp "spec")
  let pj ← field inp "program"
  let p : Program := { langsys := ← asList asLS (← field pj "langsys"), blocks := ← asList asBlock (← field pj "blocks") }
  let m : Except Err (List Key) :=
    if checkLangsys p.langsys [] false then .ok (scriptList (build p)) else .error .featureLib
  reachReply i m (← field req "obs")

def asRule : Json → R Rule := asList (asPair asStr asStr)
def asSubMap : Json → R SubMap := asList (asPair asStr (asList asStr))
def subMapJ (m : SubMap) : Json := listJ (pairJ Json.str strsJ) m

/-- op "extrasubs": `_pre_compile_designspace`'s extraSubstitutions -/
def extrasubs (req : Json) : R Reply := do
  let i ← field req "in"
  let rules ← asList asRule (← field i "rules")
  let path : Path := match i.getObjVal? "path" with
    | .ok (Json.str "variable") => .variable
    | _ => .masters
  let obs ← asSubMap (← field req "obs")
  return { model := subMapJ (writersExtra path rules), holds := holdsExtra rules obs }

/-- op "classify": the extra_substitutions step of `util.classifyGlyphs` -/
def classify (req : Json) : R Reply := do
  let i ← field req "in"
  let m ← asSubMap (← field i "extras")
  let sets ← asSubMap (← field i "sets")
  let obs ← asSubMap (← field req "obs")
  return { model := subMapJ (classifyExtra m sets), holds := holdsClassify m sets obs }

/-- op "ds": predicate only (the compiled ScriptList of a designspace master against the converse direction) -/
def dsOp (req : Json) : R Reply := do
  let i ← field req "in"
  let d : DsIn := { rules := ← asList asRule (← field i "rules"),
                    own := ← asSubMap (← field i "own"),
                    pairs := ← asList (asPair asStr asStr) (← field i "pairs") }
  let obs ← field req "obs"
  match ← asOpt asStr (← field obs "err") with
  | some _ => return { model := Json.mkObj [("fails", Json.arr #[])], holds := false }
  | none =>
    let keys ← asList asKey (← field obs "reach")
    return { model := Json.mkObj [("fails", listJ keyJ (dsFailures d keys))], holds := holdsDs d keys }

def asBuckets : Json → R (List (SSet × List Nat)) := asList (asPair (asList asStr) (asList asNat))
def bucketsJ (l : List (SSet × List Nat)) : Json := listJ (pairJ strsJ (listJ natJ)) l

/-- op "merge": `kernFeatureWriter.mergeScripts` -/
def mergeOp (req : Json) : R Reply := do
  let kps ← asBuckets (← field req "in")
  let obs ← field req "obs"
  let model := match mergeScripts kps with
    | .error e => Json.mkObj [("err", errJ e)]
    | .ok r => Json.mkObj [("err", Json.null), ("buckets", bucketsJ r)]
  match ← asOpt asStr (← field obs "err") with
  | some e => return { model, holds := e == "AssertionError" && kps.any (fun k => k.1.isEmpty) }
  | none =>
    let b ← asBuckets (← field obs "buckets")
    return { model, holds := holdsMerge kps b }

/-- op "xkern": predicate only (compiled ScriptList against the converse direction, cross-script kerning pairs) -/
def xkernOp (req : Json) : R Reply := do
  let i ← field req "in"
  let d : XIn := { own := ← asSubMap (← field i "own"),
                   pairs := ← asList (asPair asStr asStr) (← field i "pairs"),
                   dirs := ← asList (asPair asStr asStr) (← field i "dirs") }
  let obs ← field req "obs"
  match ← asOpt asStr (← field obs "err") with
  | some _ => return { model := Json.mkObj [("fails", Json.arr #[])], holds := false }
  | none =>
    let keys ← asList asKey (← field obs "reach")
    return { model := Json.mkObj [("fails", listJ keyJ (xFailures d keys))], holds := holdsX d keys }

/-- op "varpairs": the pair universe of `KernFeatureWriter.getVariableKerningPairs` -/
def varpairsOp (req : Json) : R Reply := do
  let i ← field req "in"
  let srcs ← asList (fun j => do
    let p ← asPair asBool (asList (asPair asStr asStr)) j
    return ({ layer := p.1, pairs := p.2 } : KSrc)) (← field i "sources")
  let known ← asList asStr (← field i "known")
  let obs ← asList (asPair asStr asStr) (← field req "obs")
  return { model := listJ (pairJ Json.str Json.str) (varKeys srcs known), holds := holdsVarPairs srcs known obs }

def handle (op : String) (req : Json) : R Reply :=
  match op with
  | "varpairs" => varpairsOp req
  | "merge" => mergeOp req
  | "xkern" => xkernOp req
  | "extrasubs" => extrasubs req
  | "classify" => classify req
  | "ds" => dsOp req
  | "addrefs" => addrefs req
  | "register" => register req
  | "e2e" => e2e req
  | "build" => buildOp req
  | _ => throw s!"C20: unknown op {op}"

end Ufo2ft.Drv.C20
