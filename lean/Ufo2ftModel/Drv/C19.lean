import Ufo2ftModel.Drv.Util
import Ufo2ftModel.Spec.C19
namespace Ufo2ft.Drv.C19
open Lean Ufo2ft.Drv Ufo2ft.C19

def errJ : Err → Json
  | .instantiator => "InstantiatorError" | .keyError => "KeyError"
  | .valueError => "ValueError" | .indexError => "IndexError"

def asErr (s : String) : Err :=
  match s with
  | "KeyError" => .keyError | "ValueError" => .valueError | "IndexError" => .indexError | _ => .instantiator

def asPt (j : Json) : R Pt := do
  match ← asArr j with
  | [x, y, t] => return ⟨← asRat x, ← asRat y, ← asOpt asStr t⟩
  | _ => throw "pt"
def asComp (j : Json) : R Comp := do
  let (b, t) ← asPair asStr (asList asRat) j
  match t with
  | [a, b', c, d, e, f] => return ⟨b, a, b', c, d, e, f⟩
  | _ => throw "comp"
def asAnchor (j : Json) : R Anchor := do
  match ← asArr j with
  | [n, x, y] => return ⟨← asStr n, ← asRat x, ← asRat y⟩
  | _ => throw "anchor"
def asGlyph (j : Json) : R SrcGlyph := do
  return { name := ← asStr (← field j "name"), unicodes := ← asList asNat (← field j "unicodes"),
           g := { width := ← asRat (← field j "width"), height := ← asRat (← field j "height"),
                  contours := ← asList (asList asPt) (← field j "contours"),
                  comps := ← asList asComp (← field j "comps"),
                  anchors := ← asList asAnchor (← field j "anchors") } }
def asKerning (j : Json) : R KDict := asList (fun e => do
  match ← asArr e with
  | [l, r, v] => return ((← asStr l, ← asStr r), ← asRat v)
  | _ => throw "kern") j
def asGroups (j : Json) : R Groups := asList (asPair asStr (asList asStr)) j
def asLoc (j : Json) : R Loc := asList (asPair asStr asRat) j
def asFont (j : Json) : R Font := do
  return { glyphs := ← asList asGlyph (← field j "glyphs"), kerning := ← asKerning (← field j "kerning"),
           groups := ← asGroups (← field j "groups") }

def ptJ (p : Pt) : Json := Json.arr #[ratJ p.x, ratJ p.y, optJ Json.str p.seg]
def compJ (c : Comp) : Json := Json.arr #[Json.str c.base, listJ ratJ [c.xx, c.xy, c.yx, c.yy, c.dx, c.dy]]
def anchorJ (a : Anchor) : Json := Json.arr #[Json.str a.name, ratJ a.x, ratJ a.y]
def glyphJ (g : SrcGlyph) : Json := Json.mkObj [("name", g.name), ("unicodes", listJ natJ g.unicodes),
  ("width", ratJ g.g.width), ("height", ratJ g.g.height), ("contours", listJ (listJ ptJ) g.g.contours),
  ("comps", listJ compJ g.g.comps), ("anchors", listJ anchorJ g.g.anchors)]
def kerningJ (k : KDict) : Json := listJ (fun e => Json.arr #[Json.str e.1.1, Json.str e.1.2, ratJ e.2]) k
def groupsJ (g : Groups) : Json := listJ (pairJ Json.str strsJ) g
def locJ (l : Loc) : Json := listJ (pairJ Json.str ratJ) l
def fontJ (f : Font) : Json := Json.mkObj [("glyphs", listJ glyphJ f.glyphs), ("kerning", kerningJ f.kerning),
  ("groups", groupsJ f.groups)]
def fontEJ : Except Err Font → Json
  | .ok f => Json.mkObj [("err", Json.null), ("font", fontJ f)]
  | .error e => Json.mkObj [("err", errJ e)]

def asAxis (j : Json) : R Axis := do
  return { name := ← asStr (← field j "name"), tag := ← asStr (← field j "tag"), minimum := ← asRat (← field j "min"),
           default := ← asRat (← field j "default"), maximum := ← asRat (← field j "max"),
           map := ← asList (asPair asRat asRat) (← field j "map") }
def asSource (j : Json) : R Source := do
  return { loc := ← asLoc (← field j "loc"), sparse := ← asBool (← field j "sparse"),
           glyphs := ← asList asGlyph (← field j "glyphs"), kerning := ← asKerning (← field j "kerning"),
           groups := ← asGroups (← field j "groups"), info := ← asList (asOpt asRat) (← field j "info") }
def asCond (j : Json) : R Cond := do
  return { name := ← asStr (← field j "name"), minimum := ← asOpt asRat (← field j "min"),
           maximum := ← asOpt asRat (← field j "max") }
def asRule (j : Json) : R Rule := do
  return { condSets := ← asList (asList asCond) (← field j "condSets"),
           subs := ← asList (asPair asStr asStr) (← field j "subs") }
def asDS (j : Json) : R DS := do
  return { axes := ← asList asAxis (← field j "axes"), sources := ← asList asSource (← field j "sources"),
           rules := ← asList asRule (← field j "rules"), skip := ← asList asStr (← field j "skip"),
           table := ← asList (asPair (asList (asList asRat)) (asList asRat)) (← field j "table") }

def infoJ (i : InfoOut) : Json := Json.mkObj [("attrs", listJ (optJ ratJ) i.attrs),
  ("weightClass", optJ intJ i.weightClass), ("widthClass", optJ intJ i.widthClass)]
def asInfoOut (j : Json) : R InfoOut := do
  return { attrs := ← asList (asOpt asRat) (← field j "attrs"), weightClass := ← asOpt asInt (← field j "weightClass"),
           widthClass := ← asOpt asInt (← field j "widthClass") }

def outputJ : Except Err Output → Json
  | .error e => Json.mkObj [("err", errJ e)]
  | .ok o => Json.mkObj [("err", Json.null), ("font", fontJ o.font), ("info", infoJ o.info),
      ("libLocation", locJ o.libLocation), ("libSkip", strsJ o.libSkip)]

def asOutput (j : Json) : R (Except Err Output) := do
  match ← asOpt asStr (← field j "err") with
  | some e => return .error (asErr e)
  | none =>
    return .ok { font := ← asFont (← field j "font"), info := ← asInfoOut (← field j "info"),
                 libLocation := ← asLoc (← field j "libLocation"), libSkip := ← asList asStr (← field j "libSkip") }

/-- op "inst": in = {ds…, round, loc, tol}; obs = {err | font, info, libLocation, libSkip, pure} -/
def inst (req : Json) : R Reply := do
  let i ← field req "in"
  let ds ← asDS i
  let round ← asBool (← field i "round")
  let loc ← asLoc (← field i "loc")
  let tol ← asRat (← field i "tol")
  let obsJ ← field req "obs"
  let obs ← asOutput obsJ
  let pure_ ← asBool (← field obsJ "pure")
  let m := generateInstance ds round ⟨loc⟩
  return { model := outputJ m, holds := pure_ && holdsInst tol ds round ⟨loc⟩ obs }

def asFontE (j : Json) : R (Except Err Font) := do
  match ← asOpt asStr (← field j "err") with
  | some e => return .error (asErr e)
  | none => return .ok (← asFont (← field j "font"))

/-- op "swap": in = {font, a, b}; obs = {once, twice} -/
def swap (req : Json) : R Reply := do
  let i ← field req "in"
  let f ← asFont (← field i "font")
  let a ← asStr (← field i "a")
  let b ← asStr (← field i "b")
  let obs ← field req "obs"
  let once ← asFontE (← field obs "once")
  let twice ← asFontE (← field obs "twice")
  let m1 := swapGlyphNames f a b
  let m2 := match m1 with | .ok f1 => swapGlyphNames f1 a b | .error e => .error e
  return { model := Json.mkObj [("once", fontEJ m1), ("twice", fontEJ m2)], holds := holdsSwap f a b once twice }

/-- op "scalars": in = {ps, v, tol}; obs = master scalars of the real one-axis VariationModel -/
def scalars (req : Json) : R Reply := do
  let i ← field req "in"
  let ps ← asList asRat (← field i "ps")
  let v ← asRat (← field i "v")
  let tol ← asRat (← field i "tol")
  let obs ← asList asRat (← field req "obs")
  return { model := listJ ratJ (scalars1 ps v), holds := holdsScalars tol ps v obs }

def handle (op : String) (req : Json) : R Reply :=
  match op with
  | "inst" => inst req
  | "swap" => swap req
  | "scalars" => scalars req
  | _ => throw s!"C19: unknown op {op}"

end Ufo2ft.Drv.C19
