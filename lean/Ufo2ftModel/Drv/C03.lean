import Ufo2ftModel.Drv.Util
import Ufo2ftModel.Spec.C03
namespace Ufo2ft.Drv.C03
open Lean Ufo2ft.Drv Ufo2ft.C03

def errJ : Err → Json | .invalidFontData => "InvalidFontData" | .keyError => "KeyError"

def cmapJ (m : CMap) : Json := listJ (pairJ natJ Json.str) m

/-- op "order": in = {names, glyphOrder}; obs = observed glyph order -/
def order (req : Json) : R Reply := do
  let i ← field req "in"
  let names ← asList asStr (← field i "names")
  let go ← asList asStr (← field i "glyphOrder")
  let obs ← asList asStr (← field req "obs")
  return { model := strsJ (compileOrder names go), holds := holdsOrder names go obs }

/-- op "official": util.makeOfficialGlyphOrder alone (no .notdef synthesis) -/
def official (req : Json) : R Reply := do
  let i ← field req "in"
  let names ← asList asStr (← field i "names")
  let go ← asList asStr (← field i "glyphOrder")
  let obs ← asList asStr (← field req "obs")
  let m := officialOrder names go
  -- declarative check without synthesis: same as specOrder minus a synthesised head
  let spec := if names.contains ".notdef" then specOrder names go else (specOrder names go).tail
  return { model := strsJ m, holds := obs == spec }

/-- op "cmap": in = {glyphs:[[name,[u..]]..] in glyph order, uvs:[[vs,[[u,name]..]]..]};
    obs = {err} | {fmt4, fmt12, uvs} -/
def cmap (req : Json) : R Reply := do
  let i ← field req "in"
  let glyphs ← asList (asPair asStr (asList asNat)) (← field i "glyphs")
  let uvs ← asList (asPair asNat (asList (asPair asNat asStr))) (← field i "uvs")
  let obs ← field req "obs"
  let oerr ← asOpt asStr (← field obs "err")
  match unicodeMap glyphs with
  | .error e =>
    return { model := Json.mkObj [("err", errJ e)],
             holds := (oerr == some "InvalidFontData") && !noDup glyphs }
  | .ok m =>
    let t := cmapTables m
    let uv := uvs.map (fun (vs, l) => (vs, uvsList m l))
    let uvErr := uv.any (fun p => match p.2 with | .error _ => true | .ok _ => false)
    if uvErr then
      return { model := Json.mkObj [("err", "KeyError")], holds := oerr == some "KeyError" }
    let uvJ := listJ (fun (p : Nat × Except Err (List (Nat × Option String))) =>
        match p.2 with
        | .ok l => pairJ natJ (listJ (pairJ natJ (optJ Json.str))) (p.1, l)
        | .error _ => Json.null) uv
    let model := Json.mkObj [("err", Json.null), ("fmt4", cmapJ t.fmt4), ("fmt12", optJ cmapJ t.fmt12), ("uvs", uvJ)]
    match oerr with
    | some _ => return { model, holds := false }
    | none =>
      let o4 ← asList (asList (asPair asNat asStr)) (← field obs "fmt4")
      let o12 ← asList (asList (asPair asNat asStr)) (← field obs "fmt12")
      let ouv ← asList (asPair asNat (asList (asPair asNat (asOpt asStr)))) (← field obs "uvs")
      let hu := (ouv.length == uvs.length) &&
        (List.zip uvs ouv).all (fun (r, o) => r.1 == o.1 && holdsUvs glyphs r.2 o.2)
      -- two format-4 subtables; zero or two format-12 subtables; each must satisfy the predicate
      let hc := o4.length == 2 && (o12.length == 0 || o12.length == 2) &&
        o4.all (fun t4 => match o12 with
          | [] => holdsCmap glyphs t4 none
          | _ => o12.all (fun t12 => holdsCmap glyphs t4 (some t12)))
      return { model, holds := noDup glyphs && hc && hu }

def handle (op : String) (req : Json) : R Reply :=
  match op with
  | "order" => order req
  | "official" => official req
  | "cmap" => cmap req
  | _ => throw s!"C03: unknown op {op}"

end Ufo2ft.Drv.C03
