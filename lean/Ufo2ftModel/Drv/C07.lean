import Ufo2ftModel.Drv.Util
import Ufo2ftModel.Spec.C07
namespace Ufo2ft.Drv.C07
open Lean Ufo2ft.Drv Ufo2ft.C07

def optField (j : Json) (k : String) : Option Json :=
  match j.getObjVal? k with
  | .ok v => if v.isNull then none else some v
  | .error _ => none

def boolD (j : Json) (k : String) (d : Bool) : R Bool :=
  match optField j k with | some v => asBool v | none => pure d
def strsD (j : Json) (k : String) : R (List String) :=
  match optField j k with | some v => asList asStr v | none => pure []
def optStrs (j : Json) (k : String) : R (Option (List String)) :=
  match optField j k with | some v => some <$> asList asStr v | none => pure none

def asSpec (j : Json) : R FSpec := do
  return { kind := ← asStr (← field j "kind"), pre := ← boolD j "pre" false, skip := ← strsD j "skip" }

def asGlyph (j : Json) : R GlyphD := do
  return { name := ← asStr (← field j "name"), contours := ← boolD j "contours" false,
           comps := ← strsD j "comps", unicodes := ← boolD j "unicodes" false, dc := ← boolD j "dc" false,
           colorMap := ← optStrs j "colorMap", eqLayers := ← strsD j "eq", anchors := ← strsD j "anchors",
           widthNZ := ← boolD j "widthNZ" true }

def asLayer (j : Json) : R LayerD := do
  return { name := ← asStr (← field j "name"), glyphs := ← asList asGlyph (← field j "glyphs") }

def asLib (j : Json) : R LibD := do
  return { mathPrefix := ← boolD j "mathPrefix" false, mathConstants := ← boolD j "mathConstants" false,
           mathMCO := ← boolD j "mathMCO" false, palettes := ← boolD j "palettes" false,
           colorLayers := ← boolD j "colorLayers" false, colorMap := ← optStrs j "colorMap",
           categories := ← boolD j "categories" false, catsDCBase := ← boolD j "catsDCBase" false,
           curveType := ← boolD j "curveType" false,
           filters := ← (match optField j "filters" with | some v => asList asSpec v | none => pure []),
           skipExport := ← strsD j "skipExport" }

def asFont (j : Json) : R FontD := do
  return { default := ← asStr (← field j "default"), layers := ← asList asLayer (← field j "layers"),
           lib := ← asLib (← field j "lib"), gdefTable := ← boolD j "gdefTable" false,
           layerCurveType := ← strsD j "layerCurveType" }

def asFn (s : String) : R Fn :=
  match s with
  | "compileTTF" => pure .ttf | "compileOTF" => pure .otf
  | "compileInterpolatableTTFs" => pure .ittfs
  | "compileInterpolatableTTFsFromDS" => pure .ittfsDS
  | "compileInterpolatableOTFsFromDS" => pure .iotfsDS
  | "compileVariableTTF" | "compileVariableTTFs" => pure .vttf
  | "compileVariableCFF2" | "compileVariableCFF2s" => pure .vcff2
  | _ => throw s!"C07: unknown entry point {s}"

def asCfg (j : Json) : R Cfg := do
  let srcs ← asList (fun s => do return (← asNat (← field s "font"), ← asOpt asStr (← field s "layer"))) (← field j "sources")
  let fa ← match optField j "filtersArg" with
    | none => pure none
    | some v => some <$> asList (asOpt asSpec) v
  return { fn := ← asFn (← asStr (← field j "fn")), inplace := ← boolD j "inplace" false,
           removeOverlaps := ← boolD j "removeOverlaps" false, flattenComponents := ← boolD j "flattenComponents" false,
           convertCubics := ← boolD j "convertCubics" true, reverseDirection := ← boolD j "reverseDirection" true,
           rememberCurveType := ← boolD j "rememberCurveType" true, skipFeatures := ← boolD j "skipFeatures" false,
           skipArg := ← optStrs j "skipArg", filtersArg := fa, sources := srcs, dsSkip := ← strsD j "dsSkip",
           variableFeatures := ← boolD j "variableFeatures" true,
           dsNamed := ← (match optField j "dsNamed" with | some v => asList asBool v | none => pure []) }

def objJ (o : Obj) (slot : String) : Json :=
  match o with
  | .fontLib f => Json.arr #["fontLib", natJ f, slot]
  | .features f => Json.arr #["features", natJ f, slot]
  | .kerning f => Json.arr #["kerning", natJ f, slot]
  | .groups f => Json.arr #["groups", natJ f, slot]
  | .info f => Json.arr #["info", natJ f, slot]
  | .layerLib f l => Json.arr #["layerLib", natJ f, l, slot]
  | .glyph f l n => Json.arr #["glyph", natJ f, l, n, slot]
  | .other f k => Json.arr #["other", natJ f, k, slot]
  | .doc => Json.arr #["doc", slot]
  | .fresh i => Json.arr #["fresh", natJ i, slot]

def asCell (j : Json) : R Cell := do
  let a ← asArr j
  match a with
  | [k, s] => do
    if (← asStr k) == "doc" then return ⟨.doc, ← asStr s⟩ else throw "cell"
  | [k, f, s] => do
    let f ← asNat f; let s ← asStr s
    match ← asStr k with
    | "fontLib" => return ⟨.fontLib f, s⟩ | "features" => return ⟨.features f, s⟩
    | "kerning" => return ⟨.kerning f, s⟩ | "groups" => return ⟨.groups f, s⟩
    | "info" => return ⟨.info f, s⟩ | "fresh" => return ⟨.fresh f, s⟩
    | k => throw s!"cell kind {k}"
  | [k, f, l, s] => do
    match ← asStr k with
    | "layerLib" => return ⟨.layerLib (← asNat f) (← asStr l), ← asStr s⟩
    | "other" => return ⟨.other (← asNat f) (← asStr l), ← asStr s⟩
    | k => throw s!"cell kind {k}"
  | [_, f, l, n, s] => return ⟨.glyph (← asNat f) (← asStr l) (← asStr n), ← asStr s⟩
  | _ => throw "cell"

def stageName : Stage → String
  | .fromLayer f l c => s!"fromLayer({f},{l.getD "<default>"},copy={c})"
  | .filter srcs n _ _ => s!"{n}{srcs}"
  | .explode s c => s!"{EXPLODE}[{s}]{if c then "" else "?"}"
  | .dottedCircle s => s!"{DC}[{s}]"
  | .math s => s!"{MATH}[{s}]"
  | .instantiate st => if st then "Instantiator(caller layers)" else "Instantiator(copies)"
  | .refresh => "_update_instantiator"
  | .propagateI s => s!"{PROPAGATE}[{s}]"
  | .otf n => n
  | .dsCopy => "deepcopyExceptFonts"
  | .dsAlias => "designspace-inplace"
  | .dsWrite n _ => n
  | .drop srcs names => s!"del{srcs}{names}"
  | .reset => "reset"

/-- merge the writes per cell: must if any write to the cell is certain; stage of the first write -/
def mergeLeaks : List Write → List (Cell × Bool × String) → List (Cell × Bool × String)
  | [], acc => acc
  | w :: ws, acc =>
    if acc.any (fun e => e.1 == w.cell) then
      mergeLeaks ws (acc.map (fun e => if e.1 == w.cell then (e.1, e.2.1 || w.must, e.2.2) else e))
    else mergeLeaks ws (acc ++ [(w.cell, w.must, w.stage)])

/-- op "call": in = {cfg, fonts}; obs = {changed: [cell…], err} -/
def call (req : Json) : R Reply := do
  let i ← field req "in"
  let cfg ← asCfg (← field i "cfg")
  let fonts ← asList asFont (← field i "fonts")
  let inp : Inp := { cfg, fonts }
  let obs ← field req "obs"
  let changed ← asList asCell (← field obs "changed")
  let raised := (optField obs "err").isSome
  let pred := leaksAll inp
  let ls := mergeLeaks pred []
  let model := Json.mkObj [
    ("consistent", Json.bool (consistent pred changed raised)),
    ("blame", match blame pred changed with | some l => strsJ l | none => Json.null),
    ("leaks", listJ (fun (e : Cell × Bool × String) => Json.arr #[objJ e.1.obj e.1.slot, Json.bool e.2.1, Json.str e.2.2]) ls),
    ("pipeline", strsJ ((pipeline inp).map stageName)),
    ("noReach", Json.bool (noReach inp)), ("clean", Json.bool (cleanCfg inp))]
  return { model, holds := holds inp changed }

def handle (op : String) (req : Json) : R Reply :=
  match op with
  | "call" => call req
  | _ => throw s!"C07: unknown op {op}"

end Ufo2ft.Drv.C07
