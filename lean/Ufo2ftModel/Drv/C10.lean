import Ufo2ftModel.Drv.Util
import Ufo2ftModel.Spec.C10
namespace Ufo2ft.Drv.C10
open Lean Ufo2ft Ufo2ft.Drv Ufo2ft.C05 Ufo2ft.C10

def asSL (j : Json) : R (List (String × List String)) := asList (asPair asStr (asList asStr)) j
def asLocItems (j : Json) : R (List (String × Q)) := asList (asPair asStr asRat) j

def asKerning (j : Json) : R (List (String × String × Q)) := do
  (← asArr j).mapM (fun e => do
    match ← asArr e with
    | [a, b, v] => pure ((← asStr a, ← asStr b, ← asRat v) : String × String × Q)
    | _ => throw "kerning entry")

def asAxis (j : Json) : R Axis := do
  return { name := ← asStr (← field j "name"), tag := ← asStr (← field j "tag"), default := ← asRat (← field j "default"),
           map := ← asList (asPair asRat asRat) (← field j "map") }

def locJ (l : Loc) : Json := listJ (pairJ Json.str ratJ) l
def scalarJ (s : Scalar) : Json := listJ (pairJ locJ ratJ) s
def valueJ : Value → Json
  | .num v => ratJ v
  | .var s => scalarJ s
def sideJ : Side → Json
  | .glyph g => Json.arr #["g", Json.str g]
  | .cls c => Json.arr #["c", strsJ c]

def asLoc (j : Json) : R Loc := asLocItems j
def asScalar (j : Json) : R Scalar := asList (asPair asLoc asRat) j
def asValue (j : Json) : R Value := do
  match j with
  | .arr _ => return .var (← asScalar j)
  | _ => return .num (← asRat j)
def asSide (j : Json) : R Side := do
  match ← asArr j with
  | [k, v] => if (← asStr k) == "g" then return .glyph (← asStr v) else return .cls (← asList asStr v)
  | _ => throw "side"

/-- op "groups": `getKerningGroups` over all sources = C05's model on the concatenated group dicts -/
def groupsOp (req : Json) : R Reply := do
  let i ← field req "in"
  let glyphSet ← asList asStr (← field i "glyphSet")
  let groups ← asSL (← field i "groups")
  let g := getKerningGroups glyphSet groups
  let gJ := fun (l : List (String × List String)) => listJ (pairJ Json.str strsJ) l
  let obs ← field req "obs"
  let o1 ← asSL (← field obs "side1")
  let o2 ← asSL (← field obs "side2")
  -- what C10 needs of the classes: non-empty, pairwise disjoint per side (distinct keys stay distinct after substitution)
  let ok := fun (l : List (String × List String)) => l.all (fun e => !e.2.isEmpty) && decide (l.flatMap (·.2)).Nodup && decide (l.map (·.1)).Nodup
  return { model := Json.mkObj [("side1", gJ g.side1), ("side2", gJ g.side2)], holds := ok o1 && ok o2 }

/-- op "kernpairs" -/
def kernpairs (req : Json) : R Reply := do
  let i ← field req "in"
  let axes ← asList asAxis (← field i "axes")
  let cx : KCtx := { side1Classes := ← asSL (← field i "side1Classes"), side2Classes := ← asSL (← field i "side2Classes"),
                     glyphSet := ← asList asStr (← field i "glyphSet"), q := ← asRat (← field i "q") }
  let srcs ← asList (fun j => do
    return ({ loc := userLoc axes (← asLocItems (← field j "dloc")), sparse := ← asBool (← field j "sparse"),
              kerning := ← asKerning (← field j "kerning") } : Source)) (← field i "sources")
  let dl := userLoc axes (← asLocItems (← field i "defaultDloc"))
  let out := getVariableKerningPairs cx srcs dl
  let model := Json.mkObj [("err", Json.null), ("pairs", listJ (fun (e : Key × Value) => Json.arr #[sideJ e.1.1, sideJ e.1.2, valueJ e.2]) out),
                           ("locs", listJ (fun (s : Source) => locJ s.loc) srcs)]
  let obs ← field req "obs"
  if !(← field obs "err").isNull then
    return { model, holds := false }
  let opairs ← asList (fun j => do
    match ← asArr j with
    | [a, b, v] => pure (((← asSide a, ← asSide b), ← asValue v) : Key × Value)
    | _ => throw "pair") (← field obs "pairs")
  let wf := wfKern cx srcs dl
  -- outside wf (two full sources at one location, no full source at the default location) the contract is not claimed:
  -- the model is then the only reference (agreement is still checked by the harness)
  return { model, holds := !wf || holdsKern cx srcs dl opairs, info := Json.mkObj [("wf", Json.bool wf)] }

def asLayer (axes : List Axis) (j : Json) : R AnchorLayer := do
  let glyphs ← asList (asPair asStr (asList (fun a => do
    match ← asArr a with
    | [n, x, y] => pure ((← asStr n, ← asRat x, ← asRat y) : String × Q × Q)
    | _ => throw "anchor"))) (← field j "glyphs")
  return { loc := userLoc axes (← asLocItems (← field j "dloc")), glyphs }

/-- op "anchor": in = {axes, layers, queries: [[glyph, anchorName]..]}; obs = [null | [vx, vy]] per query -/
def anchor (req : Json) : R Reply := do
  let i ← field req "in"
  let axes ← asList asAxis (← field i "axes")
  let layers ← asList (asLayer axes) (← field i "layers")
  let queries ← asList (asPair asStr asStr) (← field i "queries")
  let outs := queries.map (fun (g, a) => getAnchorVar layers g a)
  let model := listJ (optJ (fun (p : Value × Value) => Json.arr #[valueJ p.1, valueJ p.2])) outs
  let obs ← asList (asOpt (asPair asValue asValue)) (← field req "obs")
  let wf := wfAnchor layers
  let ok := obs.length == queries.length && (queries.zip obs).all (fun (q, o) => holdsAnchor layers q.1 q.2 o)
  return { model, holds := !wf || ok, info := Json.mkObj [("wf", Json.bool wf)] }

/-- op "collapse" -/
def collapseOp (req : Json) : R Reply := do
  let s ← asScalar (← field req "in")
  let obs ← asValue (← field req "obs")
  return { model := valueJ (collapse s), holds := holdsCollapse s obs }

/-- op "compat" -/
def compat (req : Json) : R Reply := do
  let i ← field req "in"
  let texts ← asList asStr (← field i "texts")
  let dflt ← asNat (← field i "dflt")
  let obs ← asBool (← field req "obs")
  return { model := Json.bool (featuresCompatible texts dflt), holds := holdsCompat texts dflt obs }

/-- op "compatpath": which layout path `compile_variable` took; obs = variable features were built -/
def compatpath (req : Json) : R Reply := do
  let i ← field req "in"
  let texts ← asList asStr (← field i "texts")
  let dflt ← asNat (← field i "dflt")
  let vf ← asBool (← field i "variableFeatures")
  let obs ← asBool (← field req "obs")
  return { model := Json.bool (vf && featuresCompatible texts dflt),
           holds := if vf then holdsCompat texts dflt obs else !obs }

/-- op "userloc": in = {axes, dloc}; obs = location items sorted by tag -/
def userlocOp (req : Json) : R Reply := do
  let i ← field req "in"
  let axes ← asList asAxis (← field i "axes")
  let dl ← asLocItems (← field i "dloc")
  let obs ← asLoc (← field req "obs")
  let m := userLoc axes dl
  -- declaratively: one item per axis, by tag, sorted; a design value that is a node of the axis map goes to that node's user value
  let ok := obs.map (·.1) == (mkLoc (axes.map (fun a => (a.tag, (0 : Q))))).map (·.1) &&
    axes.all (fun a => match alookup a.name dl with
      | none => alookup a.tag obs == some a.default
      | some v => if a.map.isEmpty then alookup a.tag obs == some v
                  else match (a.map.filter (fun e => e.2 == v)).getLast? with
                    | some e => alookup a.tag obs == some e.1
                    | none => true)
  return { model := locJ m, holds := ok }

/-- op "varmodel": one-axis VariationModel; in = {locs (normalized, the order given to VariationModel), values, at};
    obs = {order, supports, deltas, interp, atMasters} -/
def varmodel1 (req : Json) : R Reply := do
  let i ← field req "in"
  let locs ← asList asRat (← field i "locs")
  let values ← asList asRat (← field i "values")
  let ats ← asList asRat (← field i "at")
  let sorted := sort1 locs
  let vsSorted := sorted.map (fun l => (alookup l (locs.zip values)).getD 0)
  let sup := supports1 sorted
  let ds := deltas ((sup.map scalar1).zip (sorted.zip vsSorted))
  let supJ := listJ (optJ (fun (t : Q × Q × Q) => Json.arr #[ratJ t.1, ratJ t.2.1, ratJ t.2.2])) sup
  let model := Json.mkObj [("order", listJ ratJ sorted), ("supports", supJ), ("deltas", listJ ratJ ds),
    ("interp", listJ ratJ (ats.map (fun x => interpolate1 sorted x vsSorted))),
    ("atMasters", listJ ratJ (locs.map (fun x => interpolate1 sorted x vsSorted)))]
  let obs ← field req "obs"
  let oAt ← asList asRat (← field obs "atMasters")
  -- the law, on the implementation's output: interpolating at master i gives master i's value
  return { model, holds := oAt == values }

def asNLoc (j : Json) : R NLoc := asList (asPair asStr asRat) j
def nlocJ (l : NLoc) : Json := listJ (pairJ Json.str ratJ) l
def regionJ (r : Region) : Json :=
  listJ (pairJ Json.str (fun (t : Triple) => Json.arr #[ratJ t.1, ratJ t.2.1, ratJ t.2.2])) r

/-- op "varmodel" with `in.nlocs`: n-axis VariationModel; in = {nlocs (dicts as lists of [axis, value], the order given to
    VariationModel), axisOrder, values, at}; obs = {err} or {order, supports, reverseMapping, deltas, interp, atMasters} -/
def varmodelN (req : Json) : R Reply := do
  let i ← field req "in"
  let locs ← asList asNLoc (← field i "nlocs")
  let axisOrder ← asList asStr (← field i "axisOrder")
  let values ← asList asRat (← field i "values")
  let ats ← asList asNLoc (← field i "at")
  let obs ← field req "obs"
  let hyp := Json.bool (decide (wfInput locs) && values.length == locs.length)
  match variationModel axisOrder locs with
  | .error e => return { model := Json.mkObj [("err", Json.str e)], holds := true, hyp }
  | .ok m =>
    let model := Json.mkObj [("order", listJ nlocJ m.locations), ("supports", listJ regionJ m.supports),
      ("reverseMapping", listJ natJ m.reverseMapping), ("deltas", listJ ratJ (m.getDeltas values)),
      ("interp", listJ ratJ (ats.map (fun x => m.interpolateFromMasters x values))),
      ("atMasters", listJ ratJ (locs.map (fun x => m.interpolateFromMasters x values))),
      ("roundedDeltas", listJ ratJ (m.getDeltasRound otRound values)),
      ("roundedAtMasters", listJ ratJ (locs.map (fun x => m.interpolateRounded otRound x values)))]
    match obs.getObjVal? "err" with
    | .ok _ => return { model, holds := true, hyp }
    | .error _ =>
      let oAt ← asList asRat (← field obs "atMasters")
      let tol ← asRat (← field i "tol")
      -- the law, on the implementation's output: interpolating at master i gives master i's value (exactly when tol = 0)
      let oRAt ← asList asRat (← field obs "roundedAtMasters")
      -- ... and with `getDeltas(values, round=otRound)`: within 1/2 of master i's value
      return { model, holds := holdsReproduce values oAt tol && holdsReproduce values oRAt (1/2 + tol), hyp }

def asAnchors (j : Json) : R (List (String × List (String × Q × Q))) :=
  asList (asPair asStr (asList (fun a => do
    match ← asArr a with
    | [n, x, y] => pure ((← asStr n, ← asRat x, ← asRat y) : String × Q × Q)
    | _ => throw "anchor"))) j

/-- op "master": the instantiated variable font at one full master's location against that master -/
def master (req : Json) : R Reply := do
  let i ← field req "in"
  let m : MasterIn := { glyphs := ← asList asStr (← field i "glyphs"), groups := ← asSL (← field i "groups"),
                        kerning := ← asKerning (← field i "kerning"), q := ← asRat (← field i "q"), tol := ← asRat (← field i "tol"),
                        anchors := ← asAnchors (← field i "anchors") }
  let obs ← field req "obs"
  let pairsAll := m.glyphs.flatMap (fun g1 => m.glyphs.map (fun g2 => (g1, g2)))
  -- what the property demands: the master UFO's own kerning (UFO semantics, quantised)
  let ufoTable := pairsAll.filterMap (fun p =>
    let e := quantize (ufoKern m.groups m.kerning p.1 p.2) m.q
    if e == 0 then none else some (p, e))
  -- what the MODEL of the code predicts the font applies:
  --  * variable features: first-match over the pairs `getVariableKerningPairs` emits, evaluated at this master's location
  --  * per-master features + varLib merge: the master's own kerning - unless the default master has no GPOS at all (then varLib builds none)
  let diag ← field i "diag"
  let var ← field i "var"
  let useVar ← (do
    if var.isNull then pure false
    else pure (featuresCompatible (← asList asStr (← field var "texts")) (← asNat (← field var "dflt"))) : R Bool)
  let predicted ← (do
    if useVar then
      let axes ← asList asAxis (← field var "axes")
      -- the classes: the MODEL of `getKerningGroups` on the concatenated group dicts of this variable font's sources (sources may
      -- carry different groups); older replay files only have the classes the implementation computed
      let glyphSet ← asList asStr (← field var "glyphSet")
      let cls ← (match var.getObjVal? "allGroups" with
        | .ok g => do
          let gs := getKerningGroups glyphSet (← asSL g)
          pure (gs.side1, gs.side2)
        | .error _ => do pure (← asSL (← field var "side1Classes"), ← asSL (← field var "side2Classes")) : R (List (String × List String) × List (String × List String)))
      let cx : KCtx := { side1Classes := cls.1, side2Classes := cls.2, glyphSet := glyphSet, q := m.q }
      let srcs ← asList (fun j => do
        return ({ loc := userLoc axes (← asLocItems (← field j "dloc")), sparse := ← asBool (← field j "sparse"),
                  kerning := ← asKerning (← field j "kerning") } : Source)) (← field var "sources")
      let dl := userLoc axes (← asLocItems (← field var "defaultDloc"))
      let ml := userLoc axes (← asLocItems (← field var "masterDloc"))
      let out := getVariableKerningPairs cx srcs dl
      let U := unionKeys srcs
      pure (pairsAll.filterMap (fun p =>
        let e := appliedAt cx U out ml p.1 p.2
        if e == 0 then none else some (p, e)))
    else if (← asBool (← field diag "mergeNoGpos")) then pure []
    else pure ufoTable : R (List ((String × String) × Q)))
  -- a master at a non-integer user-space coordinate: the feature-file text truncates it (outside the model): no exact prediction
  let abstain ← (do
    if !useVar then pure false
    else
      let axes ← asList asAxis (← field var "axes")
      let locs ← asList (fun j => do pure (userLoc axes (← asLocItems (← field j "dloc")))) (← field var "sources")
      pure (locs.any (fun l => l.any (fun e => e.2.den != 1))) : R Bool)
  let expKern := predicted.map (fun (e : (String × String) × Q) => Json.arr #[Json.str e.1.1, Json.str e.1.2, ratJ e.2])
  if !(← field obs "err").isNull then
    return { model := Json.mkObj [("kern", Json.arr expKern.toArray)], holds := false, info := Json.mkObj [("err", ← field obs "err")] }
  let applied ← asList (fun j => do
    match ← asArr j with
    | [a, b, v] => pure (((← asStr a, ← asStr b), ← asRat v) : (String × String) × Q)
    | _ => throw "applied") (← field obs "kern")
  let marks ← asList (fun j => do
    match ← asArr j with
    | [b, mk, an, off] => pure ((← asStr b, ← asStr mk, ← asStr an, ← asOpt (asPair asRat asRat) off) : String × String × String × Option (Q × Q))
    | _ => throw "mark") (← field obs "marks")
  let outl ← asList (fun j => do
    match ← asArr j with
    | [g, a, b] => pure ((← asStr g, ← asList asRat a, ← asList asRat b) : String × List Q × List Q)
    | _ => throw "outline") (← field obs "outlines")
  let wk := wrongKern m applied
  let wm := wrongMarks m marks
  let wo := (outl.filter (fun e => !nearLists e.2.1 e.2.2)).map (·.1)
  let expMarks := marks.map (fun (e : String × String × String × Option (Q × Q)) =>
    match lastAnchor m e.1 e.2.2.1, lastAnchor m e.2.1 ("_" ++ e.2.2.1) with
    | some (bx, by'), some (mx, my) => Json.arr #[Json.str e.1, Json.str e.2.1, Json.str e.2.2.1,
        Json.arr #[ratJ ((otRound bx : Q) - (otRound mx : Q)), ratJ ((otRound by' : Q) - (otRound my : Q))]]
    | _, _ => Json.arr #[Json.str e.1, Json.str e.2.1, Json.str e.2.2.1, Json.null])
  return { model := Json.mkObj [("kern", Json.arr expKern.toArray), ("marks", Json.arr expMarks.toArray), ("abstain", Json.bool abstain)],
           holds := wk.isEmpty && wm.isEmpty && wo.isEmpty,
           info := Json.mkObj [("kern", listJ (fun (p : String × String) => Json.arr #[Json.str p.1, Json.str p.2]) wk),
                               ("marks", listJ (fun (p : String × String × String) => Json.arr #[Json.str p.1, Json.str p.2.1, Json.str p.2.2]) wm),
                               ("outlines", strsJ wo)] }

def handle (op : String) (req : Json) : R Reply :=
  match op with
  | "groups" => groupsOp req
  | "kernpairs" => kernpairs req
  | "anchor" => anchor req
  | "collapse" => collapseOp req
  | "compat" => compat req
  | "compatpath" => compatpath req
  | "userloc" => userlocOp req
  | "varmodel" => do
    match (← field req "in").getObjVal? "nlocs" with
    | .ok _ => varmodelN req
    | .error _ => varmodel1 req
  | "master" => master req
  | _ => throw s!"C10: unknown op {op}"

end Ufo2ft.Drv.C10
