import Ufo2ftModel.Drv.Util
import Ufo2ftModel.Spec.C08
import Ufo2ftModel.Spec.C08Env
import Ufo2ftModel.Spec.C08Filter
namespace Ufo2ft.Drv.C08
open Lean Ufo2ft.Drv Ufo2ft.C08

def asSide (j : Json) : R Side :=
  match j with
  | .str s => pure (.glyph s)
  | _ => do return .cls (← asList asStr j)

def sideJ : Side → Json
  | .glyph g => Json.str g
  | .cls gs => strsJ gs

def asPairK (j : Json) : R KPair := do
  match ← asArr j with
  | [a, b, v] => return { side1 := ← asSide a, side2 := ← asSide b, value := ← asRat v }
  | _ => throw "expected kerning pair"

def pairKJ (p : KPair) : Json := Json.arr #[sideJ p.side1, sideJ p.side2, ratJ p.value]

abbrev Buckets := List (List String × List KPair)

def asBuckets (j : Json) : R (Option Buckets) := asOpt (asList (asPair (asList asStr) (asList asPairK))) j
def bucketsJ : Option Buckets → Json
  | none => Json.null
  | some b => listJ (pairJ strsJ (listJ pairKJ)) b

def asDictS (j : Json) : R (List (String × String)) := asList (asPair asStr asStr) j
def asDictL (j : Json) : R (List (String × List String)) := asList (asPair asStr (asList asStr)) j
def asLookups (j : Json) : R (List (String × List (String × String))) := asList (asPair asStr asDictS) j

def ab (a b : Json) : Json := Json.mkObj [("a", a), ("b", b)]

def stmtS : Stmt → String
  | .script t => s!"script {t}"
  | .language l => s!"language {l}"
  | .lookup n => s!"lookup {n}"
  | .comment => "#"

/-- op "digests": the property on observed digests -/
def digests (req : Json) : R Reply := do
  let ref ← asDictS (← field (← field req "in") "ref")
  let obs ← asDictS (← field req "obs")
  let model := obs.map (fun o => (o.1, (alookup o.1 ref).getD "?"))
  return { model := listJ (pairJ Json.str Json.str) model, holds := holdsPure ref obs }

/-- op "kernwrite": KernFeatureWriter._write, lines 298-304 -/
def kernwrite (req : Json) : R Reply := do
  let i ← field req "in"
  let cdA ← asDictS (← field i "classDefsA")
  let cdB ← asDictS (← field i "classDefsB")
  let lkA ← asLookups (← field i "lookupsA")
  let lkB ← asLookups (← field i "lookupsB")
  let o ← field req "obs"
  let oa ← field o "a"
  let ob ← field o "b"
  let ocA ← asList asStr (← field oa "classDefs")
  let ocB ← asList asStr (← field ob "classDefs")
  let olA ← asList asStr (← field oa "lookups")
  let olB ← asList asStr (← field ob "lookups")
  let m (cd : List (String × String)) (lk : List (String × List (String × String))) : Json :=
    Json.mkObj [("classDefs", strsJ (classDefsOut cd)), ("lookups", strsJ (lookupGroupsOut lk))]
  -- class definitions are identified with their names, so "sorted by name" can be read off the observation
  let h := holdsSame ocA ocB && holdsSame olA olB && holdsSortedOn strLe id (cdA.map Prod.snd) ocA
  return { model := ab (m cdA lkA) (m cdB lkB), holds := h }

def asRegCtx (i : Json) : R RegCtx := do
  return { isKern := ← asBool (← field i "isKern"), distEnabled := ← asList asStr (← field i "distEnabled"),
           dfltScripts := ← asList asStr (← field i "dfltScripts"), dir := ← asDictS (← field i "dir"),
           otTags := ← asDictL (← field i "otTags"), feaLangs := ← asDictL (← field i "feaLangs") }

/-- op "register": KernFeatureWriter._registerLookups -/
def register (req : Json) : R Reply := do
  let i ← field req "in"
  let c ← asRegCtx i
  let lkA ← asLookups (← field i "lookupsA")
  let lkB ← asLookups (← field i "lookupsB")
  let o ← field req "obs"
  let oa ← asList asStr (← field o "a")
  let ob ← asList asStr (← field o "b")
  let m (lk : List (String × List (String × String))) : Json := strsJ ((registerLookups c lk).map stmtS)
  -- the same with DFLT_SCRIPTS iterated the other way round (a SET in the code)
  let sw := (registerLookups { c with dfltScripts := c.dfltScripts.reverse } lkA).map stmtS
  return { model := Json.mkObj [("a", m lkA), ("b", m lkB), ("swapped", strsJ sw)], holds := holdsSame oa ob }

/-- op "split": splitKerning (partitionByScript, mergeScripts, pairs.sort()) -/
def split (req : Json) : R Reply := do
  let i ← field req "in"
  let dflt ← asList asStr (← field i "dflt")
  let dir ← asDictS (← field i "dir")
  let gsA ← asDictL (← field i "gsA")
  let gsB ← asDictL (← field i "gsB")
  let pA ← asList asPairK (← field i "pairsA")
  let pB ← asList asPairK (← field i "pairsB")
  let o ← field req "obs"
  let oa ← asBuckets (← field o "a")
  let ob ← asBuckets (← field o "b")
  let mA := splitKerning dflt dir gsA pA
  let mB := splitKerning dflt dir gsA pB
  let mS := splitKerning dflt dir gsB pA      -- script SETS iterated in another order
  let norm (b : Option Buckets) : Option Buckets := b.map (sortOn lexLe Prod.fst)
  let h := match oa, ob with
    | some a, some b => norm (some a) == norm (some b) && holdsPartition a && holdsPartition b
    | none, none => true
    | _, _ => false
  return { model := Json.mkObj [("a", bucketsJ mA), ("b", bucketsJ mB), ("sets", bucketsJ mS)], holds := h }

/-- op "color": MarkFeatureWriter._groupMarkClasses + colorGraph -/
def color (req : Json) : R Reply := do
  let i ← field req "in"
  let pre ← asStr (← field i "pre")
  let sk ← asList (asPair asStr asInt) (← field i "sortKey")
  let mA ← asDictL (← field i "mA")
  let mB ← asDictL (← field i "mB")
  let o ← field req "obs"
  let oa ← asList (asList asStr) (← field o "a")
  let ob ← asList (asList asStr) (← field o "b")
  let j (m : List (String × List String)) : Json := listJ strsJ (groupMarkClasses pre sk m)
  let h := holdsSame oa ob && sortedOn groupKeyLe (groupKey pre sk) oa && oa.all (fun g => sortedOn strLe id g)
  return { model := ab (j mA) (j mB), holds := h }

/-- op "sortnames": sorted(…, key=name) of records with distinct names: _marksAsAST, byKey, … (payload = the name) -/
def sortnames (req : Json) : R Reply := do
  let i ← field req "in"
  let a ← asList asStr (← field i "a")
  let b ← asList asStr (← field i "b")
  let o ← field req "obs"
  let oa ← asList asStr (← field o "a")
  let ob ← asList asStr (← field o "b")
  let m (l : List String) : Json := strsJ ((marksSorted (l.map (fun n => (n, n)))).map Prod.snd)
  return { model := ab (m a) (m b), holds := holdsSame oa ob && holdsSortedOn strLe id a oa }

/-- op "curs": CursFeatureWriter._getCursiveAnchorPairs -/
def curs (req : Json) : R Reply := do
  let i ← field req "in"
  let a ← asList asStr (← field i "a")
  let b ← asList asStr (← field i "b")
  let o ← field req "obs"
  let oa ← asDictS (← field o "a")
  let ob ← asDictS (← field o "b")
  let m (l : List String) : Json := listJ (pairJ Json.str Json.str) (cursivePairs l)
  return { model := ab (m a) (m b), holds := holdsSame oa ob && sortedOn strLe Prod.fst oa }

/-- op "carets": GdefFeatureWriter._getLigatureCarets for one glyph -/
def carets (req : Json) : R Reply := do
  let i ← field req "in"
  let a ← asList asRat (← field i "a")
  let b ← asList asRat (← field i "b")
  let o ← field req "obs"
  let oa ← asList asInt (← field o "a")
  let ob ← asList asInt (← field o "b")
  let m (l : List Q) : Json := listJ intJ (ligCarets l)
  return { model := ab (m a) (m b), holds := holdsSame oa ob && sortedOn intLeB id oa }

/-- op "glyphclass": GdefFeatureWriter._sortedGlyphClass -/
def glyphclass (req : Json) : R Reply := do
  let i ← field req "in"
  let oA ← asList asStr (← field i "orderedA")
  let oB ← asList asStr (← field i "orderedB")
  let nA ← asList asStr (← field i "namesA")
  let nB ← asList asStr (← field i "namesB")
  let o ← field req "obs"
  let oa ← asList asStr (← field o "a")
  let ob ← asList asStr (← field o "b")
  return { model := ab (strsJ (sortedGlyphClass oA nA)) (strsJ (sortedGlyphClass oB nB)),
           holds := holdsSame oa ob && sortedOn strLe id oa }

def asEntry (j : Json) : R (String × Q × Q) := do
  match ← asArr j with
  | [k, x, y] => return (← asStr k, ← asRat x, ← asRat y)
  | _ => throw "expected anchor entry"
def entryJ (e : String × Q × Q) : Json := Json.arr #[Json.str e.1, ratJ e.2.1, ratJ e.2.2]

/-- op "toadd": propagateAnchors._propagate_glyph_anchors, what is appended to one composite -/
def toadd (req : Json) : R Reply := do
  let i ← field req "in"
  let comp ← asList asStr (← field i "composite")
  let nA ← asList asStr (← field i "namesA")
  let nB ← asList asStr (← field i "namesB")
  let data ← asList (asPair asStr (asList asEntry)) (← field i "data")
  let adj ← asList asEntry (← field i "adjust")
  let sorted ← asBool (← field i "sorted")
  let o ← asList asEntry (← field (← field req "obs") "a")
  let dataF (n : String) : List (String × Q × Q) := (alookup n data).getD []
  let adjF (e : String × Q × Q) : String × Q × Q := match adj.find? (fun a => a.1 == e.1) with
    | some a => a
    | none => e
  let f := if sorted then anchorsToAdd comp dataF adjF else anchorsToAddUnsorted comp dataF adjF
  let mA := f nA
  let mB := f nB
  -- the appended anchors are in name order, and the model says another iteration order of the SET gives the same
  return { model := ab (listJ entryJ mA) (listJ entryJ mB), holds := sortedOn strLe Prod.fst o && mA == mB }

def asAnchorRec (j : Json) : R AnchorRec := do
  match ← asArr j with
  | [n, x, y, i, c] => return { name := ← asStr n, x := ← asRat x, y := ← asRat y, identifier := ← asOpt asStr i, color := ← asOpt asStr c }
  | _ => throw "expected anchor record"
def anchorRecJ (a : AnchorRec) : Json :=
  Json.arr #[Json.str a.name, ratJ a.x, ratJ a.y, optJ Json.str a.identifier, optJ Json.str a.color]

def asGlyphRec (j : Json) : R GlyphRec := do
  return { name := ← asStr (← field j "name"), width := ← asRat (← field j "width"), height := ← asRat (← field j "height"),
           unicodes := ← asList asNat (← field j "unicodes"), anchors := ← asList asAnchorRec (← field j "anchors"),
           lib := ← asStr (← field j "lib"), points := ← asStr (← field j "points"),
           note := ← asOpt asStr (← field j "note"), guidelines := ← asList asStr (← field j "guidelines"),
           image := ← asOpt asStr (← field j "image") }
def glyphRecJ (g : GlyphRec) : Json :=
  Json.mkObj [("name", Json.str g.name), ("width", ratJ g.width), ("height", ratJ g.height), ("unicodes", listJ natJ g.unicodes),
    ("anchors", listJ anchorRecJ g.anchors), ("lib", Json.str g.lib), ("points", Json.str g.points),
    ("note", optJ Json.str g.note), ("guidelines", strsJ g.guidelines), ("image", optJ Json.str g.image)]

/-- op "copyglyph": util._copyGlyph on a ufoLib2 glyph and on a defcon glyph -/
def copyglyph (req : Json) : R Reply := do
  let src ← asGlyphRec (← field req "in")
  let o ← field req "obs"
  let u ← asGlyphRec (← field o "ufoLib2")
  let d ← asGlyphRec (← field o "defcon")
  let m := glyphRecJ (copyGlyph src)
  return { model := Json.mkObj [("ufoLib2", m), ("defcon", m)], holds := holdsCopy src u d }

def asUfoLib (s : String) : R UfoLib :=
  match s with
  | "ufoLib2" => pure .ufoLib2
  | "defcon" => pure .defcon
  | _ => throw s!"unknown UFO library {s}"

/-- op "vfinfo": infoCompiler.InfoCompiler.__init__ on a ufoLib2 and on a defcon master.  in: `ov` (the overrides, in
dict order), `before` (lib ↦ the master's Info, all attributes, sorted by name); obs: lib ↦ {after, temp} -/
def vfinfo (req : Json) : R Reply := do
  let i ← field req "in"
  let ov ← asDictS (← field i "ov")
  let o ← field req "obs"
  let mut models : List (String × Json) := []
  let mut ok := true
  for name in ["ufoLib2", "defcon"] do
    let lib ← asUfoLib name
    let before ← asDictS (← field (← field i "before") name)
    let ol ← field o name
    let after ← asDictS (← field ol "after")
    let temp ← asDictS (← field ol "temp")
    let r := infoInit lib ⟨[before]⟩ 0 ov
    let dJ (d : InfoD) : Json := listJ (pairJ Json.str Json.str) (sortOn strLe Prod.fst d)
    models := models ++ [(name, Json.mkObj [("after", dJ (r.1.get 0)), ("temp", dJ (r.1.get r.2))])]
    ok := ok && holdsInfoStable before after && holdsOverride before ov temp
  return { model := Json.mkObj models, holds := ok }

def asPt (j : Json) : R (Q × Q) := asPair asRat asRat j
def ptJ (p : Q × Q) : Json := pairJ ratJ ratJ p

/-- op "created": getAttrWithFallback(info, "openTypeHeadCreated") under two wall clocks.  in: `explicit` (six numbers | null),
`env` {set, value | null = a text int() rejects}, `now` [n₁, n₂]; obs: a, b = six numbers | null (exception) -/
def created (req : Json) : R Reply := do
  let i ← field req "in"
  let explicit ← asOpt (asList asNat) (← field i "explicit")
  let e ← field i "env"
  let env : Epoch ← (do
    if !(← asBool (← field e "set")) then return Epoch.unset
    match ← asOpt asNat (← field e "value") with
    | none => return Epoch.invalid
    | some v => return Epoch.value v)
  let now ← asList asNat (← field i "now")
  let o ← field req "obs"
  let oa ← asOpt (asList asNat) (← field o "a")
  let ob ← asOpt (asList asNat) (← field o "b")
  let m (n : Nat) : Json := optJ (listJ natJ) (headCreated explicit env n).toOption
  return { model := ab (m (now.getD 0 0)) (m (now.getD 1 0)), holds := holdsCreated explicit env oa ob }

/-- op "closest": propagateAnchors._bounds / _component_closest_to_origin on the components of a mark-only composite, built with
defcon and with ufoLib2.  in: `exact` = the exact lower-left corner of every component (closed form, computed by the harness);
obs: lib ↦ {bounds, chosen} -/
def closest (req : Json) : R Reply := do
  let exact ← asList asPt (← field (← field req "in") "exact")
  let o ← field req "obs"
  let od ← field o "defcon"
  let ou ← field o "ufoLib2"
  let bd ← asList asPt (← field od "bounds")
  let bu ← asList asPt (← field ou "bounds")
  let cd ← asOpt asNat (← field od "chosen")
  let cu ← asOpt asNat (← field ou "chosen")
  let m (lib : BoundsLib) : Json :=
    Json.mkObj [("bounds", listJ ptJ exact), ("chosen", optJ natJ (closestToOrigin (fun _ => exact) lib))]
  let okc (c : Option Nat) : Bool := match c with | some c => holdsClosest exact c | none => exact.isEmpty
  return { model := Json.mkObj [("defcon", m .defcon), ("ufoLib2", m .ufoLib2)],
           holds := holdsBounds exact bd bu && okc cd && okc cu && cd == cu }

/-- op "origin": ONE TransformationsFilter instance called on several fonts.  in: `origin` (int), `dx dy sx sy` (Slant = 0),
`fonts` [{upm, cap, xh : number | null}]; obs: {err} (constructor) | {fresh, shared : per font [h, xx, xy, yx, yy, dx, dy] -
get_origin_height(font, options.Origin) and context.matrix after the call, of new instances / of the shared one; heights : per
font get_origin_height(font, Origin(k)) for k = 0..4, asked of the shared instance} -/
def origin (req : Json) : R Reply := do
  let i ← field req "in"
  let o ← field req "obs"
  let fonts ← asList (fun j => do
    return ({ unitsPerEm := ← asOpt asRat (← field j "upm"), capHeight := ← asOpt asRat (← field j "cap"),
              xHeight := ← asOpt asRat (← field j "xh") } : HInfo)) (← field i "fonts")
  match Origin.ofInt (← asInt (← field i "origin")) with
  | .error e =>
    let oe ← asOpt asStr (o.getObjValD "err")
    return { model := Json.mkObj [("err", Json.str e)], holds := oe == some e }
  | .ok og =>
    let opts : TOpts := { origin := og, offsetX := ← asRat (← field i "dx"), offsetY := ← asRat (← field i "dy"),
                          scaleX := ← asRat (← field i "sx"), scaleY := ← asRat (← field i "sy") }
    let row : Option TCtx → List Q
      | none => []
      | some c => [c.height, c.matrix.xx, c.matrix.xy, c.matrix.yx, c.matrix.yy, c.matrix.dx, c.matrix.dy]
    let rows := (session (TInst.new opts) fonts).1.map row
    let all5 := fonts.map (fun f => [Origin.capHeight, .halfCapHeight, .xHeight, .halfXHeight, .baseline].map (fun k => originHeight k f))
    let fresh ← asList (asList asRat) (← field o "fresh")
    let shared ← asList (asList asRat) (← field o "shared")
    let heights ← asList (asList asRat) (← field o "heights")
    let okH := heights.length == fonts.length &&
      (fonts.zip heights).all (fun p => holdsOriginHeights p.1.unitsPerEm p.1.capHeight p.1.xHeight p.2)
    return { model := Json.mkObj [("rows", listJ (listJ ratJ) rows), ("heights", listJ (listJ ratJ) all5)],
             holds := holdsOriginHistory fresh shared && okH }

def handle (op : String) (req : Json) : R Reply :=
  match op with
  | "origin" => origin req
  | "created" => created req
  | "closest" => closest req
  | "digests" => digests req
  | "kernwrite" => kernwrite req
  | "register" => register req
  | "split" => split req
  | "color" => color req
  | "sortnames" => sortnames req
  | "curs" => curs req
  | "carets" => carets req
  | "glyphclass" => glyphclass req
  | "toadd" => toadd req
  | "copyglyph" => copyglyph req
  | "vfinfo" => vfinfo req
  | _ => throw s!"C08: unknown op {op}"

end Ufo2ft.Drv.C08
