import Ufo2ftModel.Model.Filters
import Ufo2ftModel.Spec.Render
/-! Declarative statement of C15 as decidable predicates over (glyph set before, glyph set after). -/
namespace Ufo2ft.C15
open Ufo2ft

/-- decompose / decomposeTransformed / flatten: every glyph draws the same before and after; returns the
    names of the glyphs for which that fails -/
def renderChanged (before after : GlyphSet) : List String :=
  (after.filter (fun (n, g') =>
    match before.get? n with
    | none => true
    | some g =>
      let exact := nonsingularFrom (before.length + 1) before g
      !(sameDrawing exact (renderGlyph before g) (renderGlyph after g') && g.width == g'.width &&
        g.anchors == g'.anchors))).map (·.1)

def holdsPreserve (before after : GlyphSet) : Bool :=
  (renderChanged before after).isEmpty && after.names == before.names

/-- flatten: no components-only glyph keeps a reference to a components-only glyph -/
def holdsFlatDepth (after : GlyphSet) (included : String → Bool) : Bool :=
  after.all (fun (n, g) => !included n || isSimpleOrMixed g ||
    g.comps.all (fun k => match after.get? k.base with | some b => isSimpleOrMixed b | none => true))

/-- transformations: included glyphs whose resolved outline / anchors / advance are NOT mapped by exactly `m` -/
def transformWrong (m : Affine) (included : String → Bool) (before after : GlyphSet) : List String :=
  (after.filter (fun (n, g') =>
    match before.get? n with
    | none => true
    | some g =>
      if included n && !(g.contours.isEmpty && g.comps.isEmpty && g.anchors.isEmpty) then
        -- a mirroring matrix (det < 0) maps points exactly but turns contour direction around for direct contours
        -- and not for (re-resolved) components: direction is then compared blind
        !(sameDrawing (decide (m.det > 0) && nonsingularFrom (before.length + 1) before g)
            (renderGlyph after g') ((renderGlyph before g).map (Contour.map m)) &&
          g'.anchors == g.anchors.map (fun a => let p := m.apply (a.x, a.y); { a with x := p.1, y := p.2 }) &&
          (g'.width, g'.height) == m.applyVec (g.width, g.height))
      else if included n then g' != g
      else !(g'.contours == g.contours && g'.comps == g.comps && g'.anchors == g.anchors && g'.width == g.width)
    )).map (·.1)

def holdsTransform (m : Affine) (included : String → Bool) (before after : GlyphSet) : Bool :=
  (transformWrong m included before after).isEmpty && after.names == before.names

/-! ### the REQUESTED matrix of the transformations filter, and the tolerance form of the predicate -/

/-- what the options of the transformations filter ask for, written down point by point (Glyphs.app semantics, the
    filter's documentation) and not as a product of `Transform` objects: relative to the origin height a point is FIRST
    slanted (`x += tan(Slant)·y`), THEN scaled (`x *= ScaleX/100, y *= ScaleY/100`), moved back and offset.
    `tanSlant` = `math.tan(math.radians(Slant))` is external (supplied by the harness). -/
def requestedMap (o : TOpts) (p : Q × Q) : Q × Q :=
  let t : Q := if o.slantNonzero then o.tanSlant else 0
  let y := p.2 - o.originHeight
  let x := p.1 + t * y
  (x * (o.scaleX / 100) + o.offsetX, y * (o.scaleY / 100) + o.originHeight + o.offsetY)

/-- the affine matrix of `requestedMap`: read off its values at (0,0), (1,0), (0,1) -/
def requestedMatrix (o : TOpts) : Affine :=
  let z := requestedMap o (0, 0)
  let ex := requestedMap o (1, 0)
  let ey := requestedMap o (0, 1)
  ⟨ex.1 - z.1, ex.2 - z.2, ey.1 - z.1, ey.2 - z.2, z.1, z.2⟩

def closeQ (eps a b : Q) : Bool := decide (a - b ≤ eps) && decide (b - a ≤ eps)

/-- position by position -/
def all2 {α : Type} (f : α → α → Bool) : List α → List α → Bool
  | [], [] => true
  | a :: as, b :: bs => f a b && all2 f as bs
  | _, _ => false

def closePt (eps : Q) (p q : Pt) : Bool := p.seg == q.seg && closeQ eps p.x q.x && closeQ eps p.y q.y
def closeDrawing (eps : Q) (a b : List Contour) : Bool := all2 (all2 (closePt eps)) a b
def closeAnchor (eps : Q) (a b : Anchor) : Bool := a.name == b.name && closeQ eps a.x b.x && closeQ eps a.y b.y

/-- `transformWrong` for the stream whose arithmetic is not exact in doubles (Slant: tan is irrational, the filter's
    matrix product and every mapped coordinate are rounded): for a matrix with det > 0 the filter keeps the order of contours
    and components, so the resolved outlines are compared POSITION BY POSITION within `eps` (same segment types);
    anchors and advance within `eps`; glyphs that are not included must be untouched exactly.  Where a singular component
    is reachable (contour direction is meaningless) or det ≤ 0 only the number of contours is compared. -/
def transformWrongApprox (eps : Q) (m : Affine) (included : String → Bool) (before after : GlyphSet) : List String :=
  (after.filter (fun (n, g') =>
    match before.get? n with
    | none => true
    | some g =>
      if included n && !(g.contours.isEmpty && g.comps.isEmpty && g.anchors.isEmpty) then
        let want := (renderGlyph before g).map (Contour.map m)
        let got := renderGlyph after g'
        !((if decide (m.det > 0) && nonsingularFrom (before.length + 1) before g then closeDrawing eps got want
           else got.length == want.length) &&
          all2 (closeAnchor eps) g'.anchors
            (g.anchors.map (fun a => let p := m.apply (a.x, a.y); { a with x := p.1, y := p.2 })) &&
          closeQ eps g'.width (m.applyVec (g.width, g.height)).1 &&
          closeQ eps g'.height (m.applyVec (g.width, g.height)).2)
      else if included n then g' != g
      else !(g'.contours == g.contours && g'.comps == g.comps && g'.anchors == g.anchors && g'.width == g.width)
    )).map (·.1)

/-- the propagated name is the base's anchor name, possibly numbered -/
def nameMatches (newName baseName : String) : Bool :=
  newName == baseName || (newName.startsWith (baseName ++ "_") &&
    ((newName.drop (baseName.length + 1)).toString.toNat?).isSome)

/-- anchor propagation: (1) anchors a glyph already had are unchanged and still first; (2) every added anchor lies
    where some component's base anchor of that name lands under the component's transform; (3) outlines untouched -/
def propagateWrong (before after : GlyphSet) : List String :=
  (after.filter (fun (n, g') =>
    match before.get? n with
    | none => true
    | some g =>
      let old := g'.anchors.take g.anchors.length
      let added := g'.anchors.drop g.anchors.length
      !(old == g.anchors && g'.contours == g.contours && g'.comps == g.comps && g'.width == g.width &&
        added.all (fun a => g'.comps.any (fun k =>
          match after.get? k.base with
          | none => false
          | some b => b.anchors.any (fun ba => nameMatches a.name ba.name && k.t.apply (ba.x, ba.y) == (a.x, a.y)))) &&
        -- never a second anchor of a name (or numbered family) the glyph already had
        added.all (fun a => !(g.anchors.any (fun o => o.name == a.name)))))).map (·.1)

/-- composites made of non-mark bases only must receive every base anchor they lack -/
def propagateMissing (marks : List String) (included : String → Bool) (before after : GlyphSet) : List String :=
  (after.filter (fun (n, g') =>
    match before.get? n with
    | none => false
    | some g =>
      included n && !g.comps.isEmpty && !(marks.contains n && !g.anchors.isEmpty) &&
      g'.comps.all (fun k => match after.get? k.base with
        | some b => !b.anchors.any (fun a => a.name.startsWith "_")
        | none => false) &&
      !(g'.comps.all (fun k => match after.get? k.base with
        | none => true
        | some b => b.anchors.all (fun ba =>
            g.anchors.any (fun o => o.name.startsWith ba.name) ||
            g'.anchors.any (fun a => nameMatches a.name ba.name)))))).map (·.1)

/-- mark-ligature promotion: an included composite with a ligature name (`a_b`, not starting with `_`) all of whose
    (existing) components are mark glyphs must be treated as if the component whose bounds' lower-left corner is closest to
    the origin were its base: SOME component `k` of minimal squared distance (`bnd` = the corner of each component) exists
    such that every anchor of `k`'s base is there (own anchor with that prefix, or propagated under that name) and every
    added anchor bears the name of an anchor of `k`'s base — the other components stay marks and contribute no names. -/
def promotionWrong (bnd : Comp → Option (Q × Q)) (marks : List String) (included : String → Bool)
    (before after : GlyphSet) : List String :=
  (after.filter (fun (n, g') =>
    match before.get? n with
    | none => false
    | some g =>
      included n && !g.comps.isEmpty && !(marks.contains n && !g.anchors.isEmpty) && isLigatureMark n &&
      g'.comps.any (fun k => (after.get? k.base).isSome) &&
      g'.comps.all (fun k => match after.get? k.base with
        | some b => b.anchors.any (fun a => a.name.startsWith "_")
        | none => true) &&
      !(g'.comps.any (fun k =>
        match after.get? k.base, bnd k with
        | some b, some p =>
          g'.comps.all (fun k' => match after.get? k'.base, bnd k' with
            | some _, some p' => decide (dist2 p ≤ dist2 p')
            | some _, none => false
            | none, _ => true) &&
          b.anchors.all (fun ba =>
            g.anchors.any (fun o => o.name.startsWith ba.name) ||
            g'.anchors.any (fun a => nameMatches a.name ba.name)) &&
          (g'.anchors.drop g.anchors.length).all (fun a => b.anchors.any (fun ba => nameMatches a.name ba.name))
        | _, _ => false)))).map (·.1)

/-- numbering discipline of propagated anchors: an added anchor either bears exactly the name of an anchor of one of the
    glyph's component bases, or it is a NUMBERED ligature anchor `ba_N` — and then at least two components' bases carry an
    anchor called `ba` and `1 ≤ N ≤` the number of such components (one entry per carrying COMPONENT, not per matching
    anchor: a base with two anchors of one name still counts once).  Together with `propagateMissing` this forces a
    composite with a single carrier of `top` to receive `top` itself. -/
def carriers (bases : List Glyph) (name : String) : Nat :=
  bases.countP (fun b => b.anchors.any (fun x => x.name == name))

def numberingWrong (before after : GlyphSet) : List String :=
  (after.filter (fun (n, g') =>
    match before.get? n with
    | none => false
    | some g =>
      let bases := g'.comps.filterMap (fun k => after.get? k.base)
      !((g'.anchors.drop g.anchors.length).all (fun a =>
          bases.any (fun b => b.anchors.any (fun ba =>
            a.name == ba.name ||
            (decide (2 ≤ carriers bases ba.name) &&
             (List.range (carriers bases ba.name)).any (fun i => a.name == s!"{ba.name}_{i + 1}")))))))).map (·.1)

def holdsPropagate (marks : List String) (included : String → Bool) (before after : GlyphSet)
    (secondModified : List String) (secondSame : Bool) : Bool :=
  (propagateWrong before after).isEmpty && (propagateMissing marks included before after).isEmpty &&
  after.names == before.names && secondModified.isEmpty && secondSame

/-- the whole predicate, the promotion clause included -/
def holdsPropagateP (bnd : Comp → Option (Q × Q)) (marks : List String) (included : String → Bool)
    (before after : GlyphSet) (secondModified : List String) (secondSame : Bool) : Bool :=
  holdsPropagate marks included before after secondModified secondSame &&
  (promotionWrong bnd marks included before after).isEmpty

/-- everything, the numbering discipline included -/
def holdsPropagateN (bnd : Comp → Option (Q × Q)) (marks : List String) (included : String → Bool)
    (before after : GlyphSet) (secondModified : List String) (secondSame : Bool) : Bool :=
  holdsPropagateP bnd marks included before after secondModified secondSame &&
  (numberingWrong before after).isEmpty

end Ufo2ft.C15
