import Ufo2ftModel.Model.C02Flags
/-!
What the glyf flag post-processing may do, said without reference to how it is computed.  The structures (`SimpleTT`, `CompTT`,
`UfoFlags`) and the flag constants are shared with the model; `setSimpleFlags` / `setCompositeFlags` are not used here.
-/
namespace Ufo2ft.C02.Flags
open Ufo2ft Ufo2ft.C02

/-- `a` and `b` have the same bits everywhere outside the mask `m` -/
def sameOutside (m a b : Nat) : Bool := (a ||| m) == (b ||| m)
/-- every bit of `m` is set in `x` / no bit of `m` is set in `x` -/
def hasBits (x m : Nat) : Bool := (x &&& m) == m
def noBits (x m : Nat) : Bool := (x &&& m) == 0
/-- the bits `m` of `x` are all set when `v`, all clear when not -/
def bitsAre (v : Bool) (x m : Nat) : Bool := if v then hasBits x m else noBits x m

/-- pointwise relation of two lists of the same length -/
def all2 (r : α → β → Bool) : List α → List β → Bool
  | [], [] => true
  | a :: as, b :: bs => r a b && all2 r as bs
  | _, _ => false

/-- simple glyphs.  `pen` = the glyph as the pen built it, `out` = the glyph in the font, `lib` = the value of
    `public.truetype.overlap` in the UFO glyph's lib (none: absent).
    Coordinates, contour ends and the contour count are the pen's; every flag byte but the first is the pen's; the first one
    differs at most in OVERLAP_SIMPLE (so the on-curve and the cubic bit of EVERY point are the pen's); key absent (or a glyph
    without contours): nothing differs; key present: OVERLAP_SIMPLE of the first point is the lib value. -/
def holdsSimpleFlags (lib : Option Bool) (pen out : SimpleTT) : Bool :=
  out.numberOfContours == pen.numberOfContours && out.coords == pen.coords && out.endPts == pen.endPts &&
  out.flags.drop 1 == pen.flags.drop 1 &&
  (match pen.flags.head?, out.flags.head? with
   | none, none => true
   | some p, some o =>
     sameOutside flagOverlapSimple o p &&
     (match lib with
      | none => o == p
      | some v => if pen.numberOfContours < 1 then o == p else bitsAre v o flagOverlapSimple)
   | _, _ => false)

/-- the three bits the composite post-processing may write; of them only two on a component that is not the first -/
def compMask : Nat := ROUND_XY_TO_GRID ||| USE_MY_METRICS ||| OVERLAP_COMPOUND
def compMaskRest : Nat := ROUND_XY_TO_GRID ||| USE_MY_METRICS

/-- same reference (base glyph, offset, 2x2), flag words equal outside `m` -/
def compSame (m : Nat) (p o : CompTT) : Bool :=
  o.base == p.base && o.dx == p.dx && o.dy == p.dy && o.lin == p.lin && sameOutside m o.flags p.flags

/-- the entry of `public.objectLibs` for a component, if it says anything about one of the two keys -/
def entryOf (u : UfoFlags) (id : Option String) : Option ObjLib :=
  match id, u.objLibs with
  | some i, some d => (alookup i d).filter (fun e => e.round.isSome || e.metrics.isSome)
  | _, _ => none

/-- composite glyphs.  `pen` = the component records as the pen built them, `out` = those in the font, `u` = what the UFO glyph
    says, `auto` = the autoUseMyMetrics option.
    * every component keeps base glyph, offset and 2x2; its flag word differs at most in ROUND_XY_TO_GRID / USE_MY_METRICS, and,
      for the first component only, OVERLAP_COMPOUND;
    * component counts of UFO glyph and compiled glyph differ: only USE_MY_METRICS may differ (nothing at all with `auto` off);
    * counts equal: OVERLAP_COMPOUND of the first component is the lib value when the key is present, the pen's when absent. -/
def holdsCompositeFlags (auto : Bool) (u : UfoFlags) (pen out : List CompTT) : Bool :=
  (match pen, out with
   | [], [] => true
   | p :: ps, o :: os =>
     compSame compMask p o && all2 (compSame compMaskRest) ps os &&
     (if (p :: ps).length == u.ids.length then
        (match u.overlap with
         | some v => bitsAre v o.flags OVERLAP_COMPOUND
         | none => compSame compMaskRest p o)
      else true)
   | _, _ => false) &&
  (if pen.length == u.ids.length then true
   else if auto then all2 (compSame USE_MY_METRICS) pen out else out == pen)

end Ufo2ft.C02.Flags
