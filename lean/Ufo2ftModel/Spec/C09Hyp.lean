import Ufo2ftModel.Spec.C09
import Ufo2ftModel.Spec.C09Sign
/-!
C09: the DECIDABLE hypotheses of the pipeline-level theorems (`Props/C09Pipe.lean`).  The driver evaluates them on every
generated family (reply field `hyp`), so the evidence shows how often the theorems apply.
-/
namespace Ufo2ft.C09
open Ufo2ft

/-- glyph sets are dicts keyed by glyph name: keys are distinct and each glyph carries its key as its name -/
def wfSrc (src : Masters) : Bool :=
  src.all (fun m => decide (m.names.Nodup) && m.all (fun e => e.2.name == e.1))

/-- no source glyph has a vertical advance of 0xFFFF or more (0xFFFF marks ufo2ft's own empty stand-ins) -/
def heightsBelow (src : Masters) : Bool := src.all (fun (m : GlyphSet) => m.all (fun e => decide (e.2.height < sentinel)))

/-- the sources of a designspace sit at pairwise different locations -/
def locsOk (cfg : Cfg) : Bool := match cfg.inst with | some I => decide I.locs.Nodup | none => true

/-- in a designspace build every source that is not flagged sparse has every glyph of the family -/
def fullMastersFull (cfg : Cfg) (src : Masters) : Bool :=
  cfg.inst.isNone || (src.zip cfg.sparse).all (fun (m, sp) => sp || (allNames src).all (fun n => m.names.contains n))

/-- `.notdef` is not skipped, and each source has one, or gets the empty fallback, or a stub is supplied -/
def notdefOk (cfg : Cfg) (src : Masters) : Bool :=
  !cfg.skip.contains ".notdef" &&
  (List.range src.length).all (fun i =>
    ((src.getD i []).get? ".notdef").isSome || cfg.notdefFallback || (cfg.stubs.getD i none).isSome)

/-- what `fonts_to_quadratic` must leave alone: keys, names, advances, components, and whether there is an outline -/
def skel (m : GlyphSet) : List (String × String × Q × Q × List Comp × Bool) :=
  m.map (fun e => (e.1, e.2.name, e.2.width, e.2.height, e.2.comps, e.2.contours.isEmpty))

def cu2quKeeps (pre q : Masters) : Bool := q.map skel == pre.map skel

/-- the hypothesis on cu2qu as a whole: whatever went in, keys / names / advances / components came out unchanged -/
def cu2quOk (cfg : Cfg) (before : Option Masters) : Bool :=
  match before, cfg.cu2qu with
  | some p, some q => cu2quKeeps p q
  | _, _ => true

/-- in each phase either every source carries a custom filter or none does (else ufo2ft filters one by one) -/
def uniformCustom (cfg : Cfg) : Bool :=
  [true, false].all (fun pre => (customPhase cfg pre).all Option.isSome || ((customPhase cfg pre).filterMap id).isEmpty)

/-- the iteration orders handed to the model mention every glyph name of the family that is not skipped (they are orders
    of the SET of all names; the skipped ones are gone after the first run) -/
def ordersCover (cfg : Cfg) (src : Masters) : Bool :=
  cfg.orders.all (fun o => (allNames src).all (fun n => cfg.skip.contains n || o.contains n))

/-- `.notdef` is handled the same way in all masters: the empty fallback, or every source has its own (and it is not skipped) -/
def notdefJoint (cfg : Cfg) (src : Masters) : Bool :=
  cfg.notdefFallback || (!cfg.skip.contains ".notdef" && src.all (fun (m : GlyphSet) => (m.get? ".notdef").isSome))

/-- no source glyph looks like one of ufo2ft's empty stand-ins -/
def noSentinels (src : Masters) : Bool := src.all (fun (m : GlyphSet) => m.all (fun e => !isSentinel e.2))

/-- "alike": glyphs of the same name have the same point types, component names and determinant signs in all sources -/
def alike (src : Masters) : Bool := (allNames src).all (fun n => allEq ((glyphsNamed src n).map absGlyph))

/-- components paired by index, each pair of matrices sign-stable along the segment between them -/
def signStableG (a b : Glyph) : Bool := (a.comps.zip b.comps).all (fun p => signStable2 p.1.t p.2.t)

/-- **signStable**: for every glyph name and every two sources that have the glyph, each component's determinant has the
    same non-zero sign in both AND on the whole segment between the two matrices -/
def signStable (src : Masters) : Bool :=
  (allNames src).all (fun n => (glyphsNamed src n).all (fun a => (glyphsNamed src n).all (fun b => signStableG a b)))

/-- the weaker condition the task statement starts from: equal non-zero determinant signs in all sources -/
def signsEqualNonzero (src : Masters) : Bool :=
  (allNames src).all (fun n => (glyphsNamed src n).all (fun a => (glyphsNamed src n).all (fun b =>
    (a.comps.zip b.comps).all (fun p => sgn p.1.t.det == sgn p.2.t.det && sgn p.1.t.det != 0))))

/-- the names a `BaseIFilter.__call__` iterates over: the next of the given set orders, else first-occurrence order -/
def runNames (s : St) : List String := match s.orders with | o :: _ => o | [] => allNames s.ms

/-- no glyph of `order` refers (through any chain of component references of the sources) to itself or to a glyph
    that comes earlier in `order` or is in `seen` -/
def topoB (src : Masters) : List String → List String → Bool
  | _, [] => true
  | seen, n :: ns => !reaches ((allNames src).length + 1) src (n :: seen) n && topoB src (n :: seen) ns

/-- the depth-sorted order of the first interpolatable filter run is topological: composites before their bases
    (ufo2ft sorts by a component depth computed in the FIRST glyph set that has the glyph, which does not guarantee it) -/
def orderTopo (cfg : Cfg) (src : Masters) : Bool :=
  match orderI src (runNames ⟨src, none, [], cfg.orders⟩) with
  | .ok ord => topoB src [] ord
  | .error _ => true

/-- cu2qu's contract as far as `C09_pipeline_inst_partial` needs it: alike glyph sets in, alike glyph sets out -/
def cu2quAlike (cfg : Cfg) (before : Option Masters) : Bool :=
  match before, cfg.cu2qu with
  | some p, some q => !alike p || alike q
  | _, _ => true

/-- the configurations `C09_pipeline_inst_partial` covers: no skipExportGlyphs, no custom filters, and (TrueType) no
    flattenComponents — then the only interpolatable filter run works on the pristine source layers -/
def instPlain (cfg : Cfg) : Bool :=
  cfg.skip.isEmpty && cfg.custom.all Option.isNone && (!cfg.ttf || !cfg.flatten)

end Ufo2ft.C09
