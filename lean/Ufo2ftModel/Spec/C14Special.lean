import Ufo2ftModel.Spec.C14
import Ufo2ftModel.Model.C14Special
/-!
Property C14 for the two filters that add glyphs: DottedCircleFilter and ExplodeColorLayerGlyphsFilter.

"A glyph filter never changes a glyph that is neither included nor referenced by an included glyph; it reports as
modified every glyph it changed, added or removed; it never touches the source font when given a separate glyph set."

* DottedCircleFilter is asked for ONE glyph: the glyph of the glyph set that the font encodes as U+25CC when it has an
  outline, else a new glyph `uni25CC` (nothing when the font's dotted circle is not in the glyph set).
* ExplodeColorLayerGlyphsFilter is asked to ADD glyphs named `<glyph>.<layer>` for glyphs of the font's layers; it is
  not asked to change any glyph that exists.

The predicates are evaluated by the driver on the OBSERVED glyph set / returned set / source font after the call.
They use the data types of the model (`FGlyph`, `LGlyph`, …) but none of its functions.
-/
namespace Ufo2ft.C14

/-! ### DottedCircleFilter -/

/-- the one glyph the filter may change or add (`none`: nothing) -/
def dcTarget (font : List FGlyph) (gs : GlyphSet) : Option String :=
  match font.find? (fun g => g.unicodes.contains 0x25CC) with
  | none => some "uni25CC"
  | some fg =>
    match alookup fg.name gs with
    | none => none
    | some g => if g.contours.isEmpty then some "uni25CC" else some fg.name

def holdsDCFootprint (font : List FGlyph) (gs gs' : GlyphSet) : Bool :=
  (changedNames gs gs').all (fun n => dcTarget font gs == some n)

/-- the source font as the filter can touch it: default-layer glyphs, the categories in the lib, the feature text -/
def holdsDCSource (separate : Bool) (glyphs glyphs' : List (String × Glyph))
    (cats cats' : Option (List (String × String))) (feaChanged : Bool) : Bool :=
  !separate || (glyphs' == glyphs && cats' == cats && !feaChanged)

def holdsDC (separate : Bool) (font : List FGlyph) (gs : GlyphSet) (modified : List String) (gs' : GlyphSet)
    (glyphs' : List (String × Glyph)) (cats cats' : Option (List (String × String))) (feaChanged : Bool) : Bool :=
  holdsDCFootprint font gs gs' && holdsReport gs gs' modified &&
  holdsDCSource separate (font.map (fun fg => (fg.name, fg.g))) glyphs' cats cats' feaChanged

/-- the anchors the target glyph has before the call (`drawn`: the anchors of a newly drawn glyph, i.e. none) -/
def dcTargetAnchors (font : List FGlyph) (gs : GlyphSet) (drawn : Glyph) : List String :=
  match font.find? (fun g => g.unicodes.contains 0x25CC) with
  | none => drawn.anchors.map (·.name)
  | some fg =>
    match alookup fg.name gs with
    | none => []
    | some g => if g.contours.isEmpty then drawn.anchors.map (·.name) else g.anchors.map (·.name)

/-- horizontal extent of a glyph of the font: of its bounding box if it has one, else its advance width -/
def extent (fg : FGlyph) : Q :=
  match fg.bw with
  | some w => w
  | none => fg.g.width

/-- the dotted circle lacks an attachment point: some glyph of non-zero extent has a base anchor `a` that the target
 glyph does not have, and some glyph has the mark anchor `_a` -/
def dcWantsAnchor (font : List FGlyph) (present : List String) : Bool :=
  font.any (fun fg => extent fg != 0 && fg.g.anchors.any (fun a =>
    !a.name.startsWith "_" && !present.contains a.name &&
    font.any (fun m => m.g.anchors.any (fun b => b.name.startsWith "_" && b.name == "_" ++ a.name))))

/-! ### ExplodeColorLayerGlyphsFilter -/

/-- names whose entry differs between two glyph sets of full glyph objects -/
def xchangedNames (gs gs' : XSet) : List String :=
  ((gs.map (·.1) ++ gs'.map (·.1)).eraseDups).filter (fun n => alookup n gs != alookup n gs')

/-- `<glyph>.<layer>` for a glyph of a layer of the font -/
def exAllowedName (layers : List (String × XSet)) (n : String) : Bool :=
  layers.any (fun e => e.2.any (fun g => n == g.1 ++ "." ++ e.1))

/-- footprint: glyphs are only added, under the names of layer glyphs -/
def holdsExFootprint (layers : List (String × XSet)) (gs gs' : XSet) : Bool :=
  (xchangedNames gs gs').all (fun n => (alookup n gs).isNone && exAllowedName layers n)

def holdsExReport (gs gs' : XSet) (modified : List String) : Bool :=
  (xchangedNames gs gs').all (fun n => modified.contains n)

/-- the color layer mapping that applies to a glyph: its own, else the font's -/
def mappingOf (own glob : Option ColorMap) : Option ColorMap :=
  match own with
  | some m => some m
  | none => glob

/-- the filter has something to add: the lib has no `colorLayers` key yet, and some included glyph of the glyph set is
 mapped (by its own or by the font's color layer mapping) to a layer that has a glyph of its name which is not
 equal to the glyph itself -/
def exWantsCopy (incl : Include) (src : ExSrc) (gs : XSet) : Bool :=
  src.colorLayers.isNone &&
  gs.any (fun e => alookup e.1 gs == some e.2 && incl e.1 e.2.g &&
    (match mappingOf e.2.cmap src.globalMap with
     | none => false
     | some m => m.any (fun le =>
         match alookup le.1 src.layers with
         | none => false
         | some lay =>
           match alookup e.1 lay with
           | none => false
           | some lg => e.2 != lg)))

def holdsExSource (separate : Bool) (src src' : ExSrc) : Bool := !separate || src' == src

def holdsEx (separate : Bool) (src : ExSrc) (gs : XSet) (modified : List String) (gs' : XSet) (src' : ExSrc) : Bool :=
  holdsExFootprint src.layers gs gs' && holdsExReport gs gs' modified && holdsExSource separate src src'

end Ufo2ft.C14
