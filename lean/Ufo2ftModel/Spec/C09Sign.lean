import Ufo2ftModel.Model.C09Shape
namespace Ufo2ft.C09
open Ufo2ft
/-- the coefficient of s(1-s) in det((1-s)·a + s·b) -/
def mixDet (a b : Affine) : Q := a.xx * b.yy + b.xx * a.yy - a.xy * b.yx - b.xy * a.yx
/-- DECIDABLE: the determinants of `a` and `b` have the same non-zero sign and so has every matrix on the segment between them -/
def signStable2 (a b : Affine) : Bool :=
  (decide (0 < a.det) && decide (0 < b.det) && (decide (0 ≤ mixDet a b) || decide (mixDet a b * mixDet a b < 4 * a.det * b.det))) ||
  (decide (a.det < 0) && decide (b.det < 0) && (decide (mixDet a b ≤ 0) || decide (mixDet a b * mixDet a b < 4 * a.det * b.det)))
end Ufo2ft.C09
