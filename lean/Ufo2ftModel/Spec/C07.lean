import Ufo2ftModel.Model.C07
/-! C07 as decidable predicates.

The property: unless `inplace=True` was passed, after a compile function returns or raises, no cell of a
caller-owned object (glyph fields of every layer, layer libs, font lib, info, kerning, groups, features, the
designspace document) differs from its value before the call.  The harness reports the *observed* set of changed
cells (deep snapshot before/after); `holds` is evaluated on it. -/
namespace Ufo2ft.C07

/-- the property itself, on an observation: every changed cell belongs to an object made during the call
    (the snapshots only cover caller objects, so this means: nothing changed) — or inplace was requested -/
def holds (inp : Inp) (changed : List Cell) : Bool :=
  inp.cfg.inplace || changed.all (fun c => !c.obj.owned)

/-- all handles the pipeline writes through (glyph sets, designspace handle, the Instantiator's source layers)
    designate objects made during the call -/
def GS.safe (gs : GS) : Bool := gs.entries.all (fun en => !en.obj.owned) && !gs.lib.owned
def Env.safe (e : Env) : Bool :=
  e.gss.all GS.safe && (match e.docW with | none => true | some o => !o.owned) && !e.instStale

/-- no stage of the configuration's pipeline reaches through to the caller (see `Stage.reaches`) -/
def noReach (inp : Inp) : Bool := (pipeline inp).all (fun st => !st.reaches)

/-- the same, stated on the configuration instead of the pipeline: inplace not requested and no source font
    activates one of the three stages that go through the `ufo` handle -/
def cleanFont (cfg : Cfg) (fd : FontD) : Bool :=
  !fd.lib.mathPrefix && !colourTrigger fd &&
  (customFilters cfg fd).all (fun s => s.kind != DC && s.kind != EXPLODE)
def cleanCfg (inp : Inp) : Bool :=
  !inp.cfg.inplace && inp.cfg.sources.all (fun s => cleanFont inp.cfg (inp.font s.1))

/-- a history: the pipelines of `n` successive calls (handles dropped between calls) -/
def history (inp : Inp) (n : Nat) : List Stage := (List.replicate n (Stage.reset :: pipeline inp)).flatten

/-- the stages to which a leak may be attributed when inplace is not requested -/
def leakStages : List String := [MATH, EXPLODE, DC]

/-- a predicted write covers an observed cell: same cell, or same object with the wildcard slot `*` -/
def Write.covers (w : Write) (c : Cell) : Bool := w.cell == c || (w.cell.obj == c.obj && w.cell.slot == "*")

/-- correspondence predicate (evaluated by the driver on every request): every certain write is observed —
    unless the call raised, which may have cut the pipeline short — and everything observed is predicted -/
def consistent (pred : List Write) (changed : List Cell) (raised : Bool) : Bool :=
  (raised || (pred.filter (·.must)).all (fun w => changed.contains w.cell))
  && changed.all (fun c => pred.any (fun w => w.covers c))

/-- the stages the model blames for the observed changes (none if some change is not predicted) -/
def blame (pred : List Write) (changed : List Cell) : Option (List String) :=
  changed.foldl (fun acc c =>
    match acc, pred.find? (fun w => w.covers c) with
    | some l, some w => some (if l.contains w.stage then l else l ++ [w.stage])
    | _, _ => none) (some [])

end Ufo2ft.C07
