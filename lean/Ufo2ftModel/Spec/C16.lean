import Ufo2ftModel.Model.C16
/-!
C16 as decidable predicates.

* `holdsAttrs info env E`   — `E` (attribute ↦ effective value) satisfies the *documented* fallback system:
  an explicit value is returned as is; an absent attribute equals its static default or its documented
  formula over the effective values of other attributes.  A system of equations, no evaluation order.
  (`Props`: the model's `getV` is a solution, and the solution is unique — the system is well-founded.)
* `holdsPsName s`           — only printable ASCII without space and without `[](){}<>/%`
                              (`holdsPsString`: plus the space when spaces are allowed).
* `sumBits`                 — Σ 2^i over the bit numbers listed (what `intListToNum` has to compute).
* `rows`                    — the table "field ⇐ conversion(attribute)" (explicit value wins / fallback fills).
* `holdsFont`               — every info-fed field of a compiled font has the documented value.
-/
namespace Ufo2ft.C16

/-! ### typing of spec-valid font info (under which the model's totalised accessors are faithful) -/

inductive Ty | num | str | nums | recs | gasp
  deriving DecidableEq, Repr

def Attr.ty : Attr → Ty
  | .versionMajor | .versionMinor | .unitsPerEm | .italicAngle | .year | .openTypeHeadLowestRecPPEM
  | .openTypeHheaLineGap | .openTypeHheaCaretOffset | .openTypeOS2WidthClass | .openTypeOS2WeightClass
  | .openTypeOS2SubscriptXSize | .openTypeOS2SubscriptYSize | .openTypeOS2SubscriptXOffset
  | .openTypeOS2SubscriptYOffset | .openTypeOS2SuperscriptXSize | .openTypeOS2SuperscriptYSize
  | .openTypeOS2SuperscriptXOffset | .openTypeOS2SuperscriptYOffset | .openTypeOS2StrikeoutSize
  | .openTypeOS2StrikeoutPosition | .openTypeVheaVertTypoAscender | .openTypeVheaVertTypoDescender
  | .openTypeVheaVertTypoLineGap | .openTypeVheaCaretSlopeRise | .openTypeVheaCaretSlopeRun
  | .openTypeVheaCaretOffset | .postscriptUniqueID | .postscriptIsFixedPitch | .postscriptBlueFuzz
  | .postscriptBlueShift | .postscriptForceBold | .postscriptDefaultWidthX | .postscriptNominalWidthX
  | .postscriptWindowsCharacterSet | .macintoshFONDFamilyID
  | .ascender | .descender | .capHeight | .xHeight | .openTypeHheaAscender | .openTypeHheaDescender
  | .openTypeHheaCaretSlopeRise | .openTypeHheaCaretSlopeRun | .openTypeOS2TypoAscender
  | .openTypeOS2TypoDescender | .openTypeOS2TypoLineGap | .openTypeOS2WinAscent | .openTypeOS2WinDescent
  | .postscriptSlantAngle | .postscriptUnderlineThickness | .postscriptUnderlinePosition
  | .postscriptBlueScale => .num
  | .openTypeHeadFlags | .openTypeOS2Selection | .openTypeOS2Panose | .openTypeOS2FamilyClass
  | .openTypeOS2UnicodeRanges | .openTypeOS2CodePageRanges | .openTypeOS2Type | .postscriptBlueValues
  | .postscriptOtherBlues | .postscriptFamilyBlues | .postscriptFamilyOtherBlues | .postscriptStemSnapH
  | .postscriptStemSnapV => .nums
  | .openTypeNameRecords => .recs
  | .openTypeGaspRangeRecords => .gasp
  | _ => .str

def Val.hasTy : Val → Ty → Bool
  | .none, _ => true
  | .num _, .num => true
  | .str _, .str => true
  | .nums _, .nums => true
  | .recs _, .recs => true
  | .gasp _, .gasp => true
  | _, _ => false

def evenLen (v : Val) : Bool := v.l.length % 2 == 0
def isNatQ (q : Q) : Bool := q.den == 1 && decide (0 ≤ q.num)

/-- spec-valid info as far as the modelled code can tell: every value has the type of its attribute,
    panose has 10 entries, the family class 2, zone lists an even length, version numbers are
    non-negative integers, the style-map style is one of the four names -/
def wfInfo (info : Info) : Bool :=
  Attr.all.all (fun a => (info a).hasTy a.ty) &&
  (info .openTypeOS2Panose = .none || (info .openTypeOS2Panose).l.length == 10) &&
  (info .openTypeOS2FamilyClass = .none || (info .openTypeOS2FamilyClass).l.length == 2) &&
  evenLen (info .postscriptBlueValues) && evenLen (info .postscriptOtherBlues) &&
  (info .versionMajor = .none || isNatQ (info .versionMajor).q) &&
  (info .versionMinor = .none || isNatQ (info .versionMinor).q) &&
  (info .styleMapStyleName = .none || styleMapNames.contains (info .styleMapStyleName).s)

/-! ### the documented fallback system -/

/-- a flat zone list as (bottom, top) pairs -/
def pairs : List Q → List (Q × Q)
  | x :: y :: rest => (x, y) :: pairs rest
  | _ => []

/-- the heights of the zones of a flat list -/
def zoneHeights (l : List Q) : List Q := (pairs l).map (fun p => absQ (fsub p.2 p.1))

/-- the documented fallback of attribute `a`, as an equation on the effective values `E`
    (`info` only for the two places where the documentation speaks of an attribute being *set*) -/
def fallbackEq (info : Info) (env : Env) (E : Attr → Val) (a : Attr) : Bool :=
  let upm := (E .unitsPerEm).q
  let asc := (E .ascender).q
  let desc := (E .descender).q
  let fam := (E .openTypeNamePreferredFamilyName).s
  let sub := (E .openTypeNamePreferredSubfamilyName).s
  match a with
  | .ascender => E a == .num (otRoundF (fmul upm (lit 8 10)))
  | .descender => E a == .num (-(otRoundF (fmul upm (lit 2 10))))
  | .capHeight => E a == .num (otRoundF (fmul upm (lit 7 10)))
  | .xHeight => E a == .num (otRoundF (fmul upm (lit 5 10)))
  | .styleMapFamilyName =>
    -- preferred family, followed by the style unless that is one of the four style-map styles
    let sty := if (info .styleMapStyleName).truthy then (info .styleMapStyleName).s else sub
    E a == .str (strip (fam ++ [' '] ++ (if styleMapNames.contains (lowerA sty) then [] else sty)))
  | .styleMapStyleName =>
    E a == .str (if styleMapNames.contains (lowerA (strip sub)) then lowerA (strip sub) else S "regular")
  | .openTypeHeadCreated => E a == .str env.nowString
  | .openTypeHheaAscender => E a == .num (fadd asc (E .openTypeOS2TypoLineGap).q)
  | .openTypeHheaDescender => E a == E .descender
  | .openTypeHheaCaretSlopeRise =>
    E a == (if (E .italicAngle).q ≠ 0 ∧ info .openTypeHheaCaretSlopeRun ≠ .none
            then .num (otRoundF (fdiv (info .openTypeHheaCaretSlopeRun).q env.tan)) else E .unitsPerEm)
  | .openTypeHheaCaretSlopeRun =>
    E a == .num (if (E .italicAngle).q ≠ 0 then (otRoundF (fmul env.tan (E .openTypeHheaCaretSlopeRise).q) : Q) else 0)
  | .openTypeNameVersion =>
    E a == .str (S "Version " ++ dec (E .versionMajor).q ++ ['.'] ++ zfill 3 (dec (E .versionMinor).q))
  | .openTypeNameUniqueID =>
    E a == .str (replaceAll (S "Version ") [] (E .openTypeNameVersion).s ++ [';'] ++ (E .openTypeOS2VendorID).s ++
                 [';'] ++ (E .postscriptFontName).s)
  | .openTypeNamePreferredFamilyName => E a == E .familyName
  | .openTypeNamePreferredSubfamilyName => E a == E .styleName
  | .openTypeNameWWSFamilyName => E a == .none
  | .openTypeNameWWSSubfamilyName => E a == .none
  | .openTypeOS2TypoAscender => E a == E .ascender
  | .openTypeOS2TypoDescender => E a == E .descender
  | .openTypeOS2TypoLineGap => E a == .num (max (fadd (fsub (truncQ (fmul upm (lit 12 10))) asc) desc) 0)
  | .openTypeOS2WinAscent => E a == .num (fadd asc (E .openTypeOS2TypoLineGap).q)
  | .openTypeOS2WinDescent => E a == .num (absQ desc)
  | .postscriptFontName => E a == .str (normalizeName env.nfkd (fam ++ ['-'] ++ sub))
  | .postscriptFullName => E a == .str (fam ++ [' '] ++ sub)
  | .postscriptSlantAngle => E a == E .italicAngle
  | .postscriptUnderlineThickness => E a == .num (fmul upm (lit 5 100))
  | .postscriptUnderlinePosition => E a == .num (fmul upm (lit (-75) 1000))
  | .postscriptBlueScale =>
    -- 3 / (4 · tallest zone of BlueValues and OtherBlues), 0.039625 when there is no zone
    let m := (zoneHeights (E .postscriptBlueValues).l ++ zoneHeights (E .postscriptOtherBlues).l).foldl max 0
    E a == .num (if m ≠ 0 then fdiv 3 (fmul 4 m) else lit 39625 1000000)
  | .openTypeGaspRangeRecords => true          -- never read through getAttrWithFallback
  | _ => E a == static a                        -- staticFallbackData (the documented constants)

/-- `E` is a solution of the documented system for `info` -/
def holdsAttrs (info : Info) (env : Env) (E : Attr → Val) : Bool :=
  Attr.all.all (fun a => a == .openTypeGaspRangeRecords ||
    (if info a ≠ .none then E a == info a else fallbackEq info env E a))

/-! ### PostScript name -/

def psGood (c : Char) : Bool := psAllowed c && !psExceptions.contains c

/-- only printable ASCII, no space, none of `[](){}<>/%` -/
def holdsPsName (s : Str) : Bool := s.all psGood

/-- the general statement about normalizeStringForPostscript: as above, plus the space when spaces are allowed -/
def holdsPsString (allowSpaces : Bool) (s : Str) : Bool := s.all (fun c => psGood c || (allowSpaces && c == ' '))

/-! ### bit lists -/

/-- Σ_{i < n, start + i ∈ l} 2^i -/
def sumBits (l : List Q) (start : Nat) : Nat → Nat
  | 0 => 0
  | n + 1 => sumBits l start n + (if l.contains ((start + n : Nat) : Q) then 2 ^ n else 0)

/-! ### rows: field ⇐ conversion(effective attribute value) -/

inductive Conv | round | raw | bits16 | ljust4 | int | str | roundList
  deriving DecidableEq, Repr

def applyConv : Conv → Val → FVal
  | .round, v => .num (otRoundF v.q)
  | .raw, v => .num v.q
  | .bits16, v => .num (sumBits v.l 0 16 : Nat)
  | .ljust4, v => .str (v.s ++ List.replicate (4 - v.s.length) ' ')
  | .int, v => .num (truncQ v.q)
  | .str, v => .str v.s
  | .roundList, v => .nums (v.l.map (fun x => ((otRoundF x : Int) : Q)))

/-- when a row applies -/
inductive Cond
  | always
  | vertical          -- all three vhea metrics are set
  | otf               -- the font has a CFF table
  | blues             -- CFF, and some zone list is non-empty
  | bluesInMemory     -- the same, before the binary round trip (CFF reals are decimal text)
  | explicit          -- only when the attribute's effective value is not None (table-level fallbacks are `derived`)
  | inMemory          -- exact only before the binary round trip
  | noGlyf            -- not a TrueType-outline font (there fontTools derives head.flags bit 1 from the glyph data)
  deriving DecidableEq, Repr

structure Row where
  field : Field
  attr : Attr
  conv : Conv
  cond : Cond
  deriving Repr

def rows : List Row := [
  ⟨.head_unitsPerEm, .unitsPerEm, .round, .always⟩,
  ⟨.head_flags, .openTypeHeadFlags, .bits16, .noGlyf⟩,
  ⟨.head_lowestRecPPEM, .openTypeHeadLowestRecPPEM, .round, .always⟩,
  ⟨.hhea_ascent, .openTypeHheaAscender, .round, .always⟩,
  ⟨.hhea_descent, .openTypeHheaDescender, .round, .always⟩,
  ⟨.hhea_lineGap, .openTypeHheaLineGap, .round, .always⟩,
  ⟨.hhea_caretSlopeRise, .openTypeHheaCaretSlopeRise, .round, .always⟩,
  ⟨.hhea_caretSlopeRun, .openTypeHheaCaretSlopeRun, .round, .always⟩,
  ⟨.hhea_caretOffset, .openTypeHheaCaretOffset, .round, .always⟩,
  ⟨.vhea_ascent, .openTypeVheaVertTypoAscender, .round, .vertical⟩,
  ⟨.vhea_descent, .openTypeVheaVertTypoDescender, .round, .vertical⟩,
  ⟨.vhea_lineGap, .openTypeVheaVertTypoLineGap, .round, .vertical⟩,
  ⟨.vhea_caretSlopeRise, .openTypeVheaCaretSlopeRise, .round, .vertical⟩,
  ⟨.vhea_caretSlopeRun, .openTypeVheaCaretSlopeRun, .round, .vertical⟩,
  ⟨.vhea_caretOffset, .openTypeVheaCaretOffset, .round, .vertical⟩,
  ⟨.OS2_usWeightClass, .openTypeOS2WeightClass, .raw, .always⟩,
  ⟨.OS2_usWidthClass, .openTypeOS2WidthClass, .raw, .always⟩,
  ⟨.OS2_fsType, .openTypeOS2Type, .bits16, .always⟩,
  ⟨.OS2_ySubscriptXSize, .openTypeOS2SubscriptXSize, .round, .explicit⟩,
  ⟨.OS2_ySubscriptYSize, .openTypeOS2SubscriptYSize, .round, .explicit⟩,
  ⟨.OS2_ySubscriptXOffset, .openTypeOS2SubscriptXOffset, .round, .explicit⟩,
  ⟨.OS2_ySubscriptYOffset, .openTypeOS2SubscriptYOffset, .round, .explicit⟩,
  ⟨.OS2_ySuperscriptXSize, .openTypeOS2SuperscriptXSize, .round, .explicit⟩,
  ⟨.OS2_ySuperscriptYSize, .openTypeOS2SuperscriptYSize, .round, .explicit⟩,
  ⟨.OS2_ySuperscriptXOffset, .openTypeOS2SuperscriptXOffset, .round, .explicit⟩,
  ⟨.OS2_ySuperscriptYOffset, .openTypeOS2SuperscriptYOffset, .round, .explicit⟩,
  ⟨.OS2_yStrikeoutSize, .openTypeOS2StrikeoutSize, .round, .explicit⟩,
  ⟨.OS2_yStrikeoutPosition, .openTypeOS2StrikeoutPosition, .round, .explicit⟩,
  ⟨.OS2_achVendID, .openTypeOS2VendorID, .ljust4, .always⟩,
  ⟨.OS2_sxHeight, .xHeight, .round, .always⟩,
  ⟨.OS2_sCapHeight, .capHeight, .round, .always⟩,
  ⟨.OS2_sTypoAscender, .openTypeOS2TypoAscender, .round, .always⟩,
  ⟨.OS2_sTypoDescender, .openTypeOS2TypoDescender, .round, .always⟩,
  ⟨.OS2_sTypoLineGap, .openTypeOS2TypoLineGap, .round, .always⟩,
  ⟨.OS2_usWinAscent, .openTypeOS2WinAscent, .round, .always⟩,
  ⟨.OS2_usWinDescent, .openTypeOS2WinDescent, .round, .always⟩,
  ⟨.post_italicAngle, .italicAngle, .raw, .inMemory⟩,
  ⟨.post_underlinePosition, .postscriptUnderlinePosition, .round, .always⟩,
  ⟨.post_underlineThickness, .postscriptUnderlineThickness, .round, .always⟩,
  ⟨.post_isFixedPitch, .postscriptIsFixedPitch, .int, .always⟩,
  ⟨.CFF_fontName, .postscriptFontName, .str, .otf⟩,
  ⟨.CFF_FullName, .postscriptFullName, .str, .otf⟩,
  ⟨.CFF_FamilyName, .openTypeNamePreferredFamilyName, .str, .otf⟩,
  ⟨.CFF_isFixedPitch, .postscriptIsFixedPitch, .int, .otf⟩,
  ⟨.CFF_ItalicAngle, .italicAngle, .raw, .otf⟩,
  ⟨.CFF_UnderlinePosition, .postscriptUnderlinePosition, .round, .otf⟩,
  ⟨.CFF_UnderlineThickness, .postscriptUnderlineThickness, .round, .otf⟩,
  ⟨.CFF_BlueFuzz, .postscriptBlueFuzz, .round, .blues⟩,
  ⟨.CFF_BlueShift, .postscriptBlueShift, .round, .blues⟩,
  ⟨.CFF_BlueScale, .postscriptBlueScale, .raw, .bluesInMemory⟩,
  ⟨.CFF_ForceBold, .postscriptForceBold, .raw, .blues⟩ ]

def zonesPresent (E : Attr → Val) : Bool :=
  [Attr.postscriptBlueValues, .postscriptOtherBlues, .postscriptFamilyBlues, .postscriptFamilyOtherBlues].any
    (fun a => !(E a).l.isEmpty)

def condHolds (c : Cond) (E : Attr → Val) (ctx : Ctx) (a : Attr) : Bool :=
  match c with
  | .always => true
  | .vertical => isVertical E
  | .otf => ctx.otf
  | .blues => ctx.otf && zonesPresent E
  | .bluesInMemory => ctx.otf && zonesPresent E && !ctx.reloaded
  | .explicit => E a ≠ .none
  | .inMemory => !ctx.reloaded
  | .noGlyf => !ctx.glyf

/-- every applicable row shows the converted effective value -/
def holdsRows (E : Attr → Val) (ctx : Ctx) (obs : Field → FVal) : Bool :=
  rows.all (fun r => !condHolds r.cond E ctx r.attr || obs r.field == applyConv r.conv (E r.attr))

/-! ### fields that are not a plain conversion of one attribute -/

def styleIs (E : Attr → Val) (s : String) : Bool := E .styleMapStyleName == .str (S s)

/-- head.macStyle: bit 0 = bold, bit 1 = italic -/
def macBit (E : Attr → Val) (i : Nat) : Bool :=
  (i == 0 && (styleIs E "bold" || styleIs E "bold italic")) || (i == 1 && (styleIs E "italic" || styleIs E "bold italic"))

/-- OS/2.fsSelection: the listed bits plus REGULAR(6) / BOLD(5) / ITALIC(0) from the style-map style -/
def selBit (E : Attr → Val) (i : Nat) : Bool :=
  (E .openTypeOS2Selection).l.contains (i : Q) || (i == 6 && styleIs E "regular") ||
  (i == 5 && (styleIs E "bold" || styleIs E "bold italic")) || (i == 0 && (styleIs E "italic" || styleIs E "bold italic"))

def sumPred (p : Nat → Bool) : Nat → Nat
  | 0 => 0
  | n + 1 => sumPred p n + (if p n then 2 ^ n else 0)

/-- the gasp table is the map ppem ↦ bits of the *last* record with that ppem, listed by strictly increasing
    ppem (`obs` = the flat list ppem₀, bits₀, ppem₁, bits₁, …) -/
def holdsGasp (recs : List (Q × List Q)) (obs : FVal) : Bool :=
  if recs.isEmpty then obs == .none else
  match obs with
  | .nums flat =>
    let ps := pairs flat
    flat.length == 2 * ps.length && (ps.map (·.1)).Pairwise (· < ·) &&
    recs.all (fun r => (ps.map (·.1)).contains r.1) &&
    ps.all (fun kv =>
      match (recs.reverse.find? (fun r => r.1 = kv.1)) with
      | some r => kv.2 == (sumBits r.2 0 4 : Nat)
      | none => false)
  | _ => false

/-- documented content of the built-in name IDs (before user records), `none` = no record -/
def builtinName (E : Attr → Val) (env : Env) (id : Nat) : Option Str :=
  let fam := (E .styleMapFamilyName).s
  let sty := title (E .styleMapStyleName).s
  let pfam := (E .openTypeNamePreferredFamilyName).s
  let psub := (E .openTypeNamePreferredSubfamilyName).s
  let elide : Bool := fam == pfam && sty == psub
  let v : Option Str :=
    match id with
    | 0 => some (E .copyright).s | 1 => some fam | 2 => some sty | 3 => some (E .openTypeNameUniqueID).s
    | 4 => some (pfam ++ [' '] ++ psub) | 5 => some (E .openTypeNameVersion).s
    | 6 => some (normalizePS env.nfkd true (E .postscriptFontName).s)
    | 7 => some (E .trademark).s | 8 => some (E .openTypeNameManufacturer).s | 9 => some (E .openTypeNameDesigner).s
    | 10 => some (E .openTypeNameDescription).s | 11 => some (E .openTypeNameManufacturerURL).s
    | 12 => some (E .openTypeNameDesignerURL).s | 13 => some (E .openTypeNameLicense).s
    | 14 => some (E .openTypeNameLicenseURL).s
    | 16 => if elide then none else some pfam | 17 => if elide then none else some psub
    | 18 => some (E .openTypeNameCompatibleFullName).s | 19 => some (E .openTypeNameSampleText).s
    | 21 => some (E .openTypeNameWWSFamilyName).s | 22 => some (E .openTypeNameWWSSubfamilyName).s
    | _ => none
  match v with
  | some s => if s.isEmpty then none else some s
  | none => none

/-- the string the name table must hold under key `k`: the last user record with that key, else the
    built-in Windows/English record (encoding 10 iff the string leaves the BMP) -/
def expectedName (E : Attr → Val) (env : Env) (k : NameKey) : Option Str :=
  match (E .openTypeNameRecords).r.reverse.find?
      (fun r => r.nameID = k.id ∧ r.platformID = k.plat ∧ r.encodingID = k.enc ∧ r.languageID = k.lang) with
  | some r => some r.string
  | none =>
    if k.plat = 3 ∧ k.lang = 0x409 then
      match builtinName E env k.id with
      | some s => if k.enc = (if isNonBMP s then 10 else 1) then some s else none
      | none => none
    else none

def builtinIds : List Nat := [0, 1, 2, 3, 4, 5, 6, 7, 8, 9, 10, 11, 12, 13, 14, 16, 17, 18, 19, 21, 22]

/-- the name table, as a finite map, is exactly `expectedName` -/
def holdsNames (E : Attr → Val) (env : Env) (obs : NameTable) : Bool :=
  (obs.map (·.1)).Nodup &&
  obs.all (fun e => expectedName E env e.1 == some e.2) &&
  builtinIds.all (fun id => match builtinName E env id with
    | some s => (obs.map (·.1)).contains ⟨id, 3, if isNonBMP s then 10 else 1, 0x409⟩
    | none => true) &&
  (E .openTypeNameRecords).r.all (fun r => (obs.map (·.1)).contains ⟨r.nameID, r.platformID, r.encodingID, r.languageID⟩)

/-- every key `E` defines (built-in IDs and user records) occurs in `keys` -/
def namesPresent (E : Attr → Val) (env : Env) (keys : List NameKey) : Bool :=
  builtinIds.all (fun id => match builtinName E env id with
    | some s => keys.contains ⟨id, 3, if isNonBMP s then 10 else 1, 0x409⟩
    | none => true) &&
  (E .openTypeNameRecords).r.all (fun r => keys.contains ⟨r.nameID, r.platformID, r.encodingID, r.languageID⟩)

/-- InfoCompiler on the name table: a key the merged info defines shows the merged string, every other key
    keeps what the compiled font had, nothing is lost and no key occurs twice -/
def holdsNamesOverride (Em Eb : Attr → Val) (envM envB : Env) (obs : NameTable) : Bool :=
  (obs.map (·.1)).Nodup &&
  obs.all (fun e => match expectedName Em envM e.1 with
    | some s => e.2 == s
    | none => expectedName Eb envB e.1 == some e.2) &&
  namesPresent Em envM (obs.map (·.1)) && namesPresent Eb envB (obs.map (·.1))

/-! ### the name-table merge of InfoCompiler on arbitrary record lists -/

/-- the string of the LAST record under key `k` -/
def lastName (k : NameKey) (t : NameTable) : Option Str := getName k t.reverse

/-- the distinct keys of a list, each at the place of its first occurrence -/
def firstKeys : List NameKey → List NameKey
  | [] => []
  | k :: ks => k :: (firstKeys ks).filter (fun x => decide (x ≠ k))

/-- what `InfoCompiler.setupTable_name` must do with the records `orig` of the variable font and the records `temp` of
    the temporary compile (no reference to how the result is computed):
    (1) no key (nameID, platformID, encodingID, languageID) occurs twice;
    (2) every record of the temporary compile is present — under its key the result holds the string of the last
        temporary record with that key;
    (3) every record of the original font whose key the temporary compile did not produce is kept — under its key the
        result holds the string of the last original record with that key;
    (4) nothing else is present;
    (5) order: the keys of the result are the distinct keys of `orig` followed by `temp`, each at its first occurrence
        (an overridden record keeps its place, new records are appended in the order of the temporary compile). -/
def holdsNamesMerge (orig temp out : NameTable) : Bool :=
  (out.map (·.1)).Nodup &&
  temp.all (fun e => match lastName e.1 temp with
    | some v => out.contains (e.1, v)
    | none => false) &&
  orig.all (fun e => (temp.map (·.1)).contains e.1 || (match lastName e.1 orig with
    | some v => out.contains (e.1, v)
    | none => false)) &&
  out.all (fun e => (orig.map (·.1)).contains e.1 || (temp.map (·.1)).contains e.1) &&
  out.map (·.1) == firstKeys (orig.map (·.1) ++ temp.map (·.1))

/-- derived fields: documented value of each field that is not a row -/
def holdsDerivedCore (E : Attr → Val) (info : Info) (env : Env) (ctx : Ctx) (obs : Field → FVal) : Bool :=
  let fr := fontRevision (E .versionMajor).q (E .versionMinor).q
  obs .head_fontRevision == .num (if ctx.reloaded then fixed16 fr else fr) &&
  obs .head_created == .num ((timeValue env (E .openTypeHeadCreated).s - macEpochDiff : Int) : Q) &&
  obs .head_macStyle == .num (sumPred (macBit E) 16 : Nat) &&
  -- TrueType outlines: bit 1 ("left side bearing at x = 0") is derived from the glyph data, all others as given
  (!ctx.glyf || obs .head_flags == .num (sumBits ((E .openTypeHeadFlags).l ++ [1]) 0 16 : Nat)) &&
  obs .OS2_fsSelection == .num (sumPred (selBit E) 16 : Nat) &&
  obs .OS2_sFamilyClass == .num ((E .openTypeOS2FamilyClass).l.getD 0 0 * 256 + (E .openTypeOS2FamilyClass).l.getD 1 0) &&
  obs .OS2_panose == .nums (E .openTypeOS2Panose).l &&
  (E .openTypeOS2UnicodeRanges = .none ||
    (obs .OS2_ulUnicodeRange1 == .num (sumBits (E .openTypeOS2UnicodeRanges).l 0 32 : Nat) &&
     obs .OS2_ulUnicodeRange2 == .num (sumBits (E .openTypeOS2UnicodeRanges).l 32 32 : Nat) &&
     obs .OS2_ulUnicodeRange3 == .num (sumBits (E .openTypeOS2UnicodeRanges).l 64 32 : Nat) &&
     obs .OS2_ulUnicodeRange4 == .num (sumBits (E .openTypeOS2UnicodeRanges).l 96 32 : Nat))) &&
  (E .openTypeOS2CodePageRanges = .none ||
    (obs .OS2_ulCodePageRange1 == .num (sumBits (E .openTypeOS2CodePageRanges).l 0 32 : Nat) &&
     obs .OS2_ulCodePageRange2 == .num (sumBits (E .openTypeOS2CodePageRanges).l 32 32 : Nat))) &&
  -- OS/2 sub/superscript and strikeout metrics when the attribute is absent (AFDKO formulas of setupTable_OS2)
  (E .openTypeOS2SubscriptXSize ≠ .none || obs .OS2_ySubscriptXSize == numI (subXSize E)) &&
  (E .openTypeOS2SubscriptYSize ≠ .none || obs .OS2_ySubscriptYSize == numI (subYSize E)) &&
  (E .openTypeOS2SubscriptYOffset ≠ .none || obs .OS2_ySubscriptYOffset == numI (subYOffset E)) &&
  (E .openTypeOS2SubscriptXOffset ≠ .none || obs .OS2_ySubscriptXOffset == numI (subXOffset E env)) &&
  (E .openTypeOS2SuperscriptXSize ≠ .none || obs .OS2_ySuperscriptXSize == numI (supXSize E)) &&
  (E .openTypeOS2SuperscriptYSize ≠ .none || obs .OS2_ySuperscriptYSize == numI (supYSize E)) &&
  (E .openTypeOS2SuperscriptYOffset ≠ .none || obs .OS2_ySuperscriptYOffset == numI (supYOffset E)) &&
  (E .openTypeOS2SuperscriptXOffset ≠ .none || obs .OS2_ySuperscriptXOffset == numI (supXOffset E env)) &&
  (E .openTypeOS2StrikeoutSize ≠ .none || obs .OS2_yStrikeoutSize == numI (strikeSize E)) &&
  (E .openTypeOS2StrikeoutPosition ≠ .none || obs .OS2_yStrikeoutPosition == numI (strikePos E)) &&
  (!ctx.reloaded || obs .post_italicAngle == .num (fixed16 (E .italicAngle).q)) &&
  -- vertical header only when all three metrics are set
  (isVertical E || (obs .vhea_ascent == .none && obs .vhea_descent == .none && obs .vhea_lineGap == .none)) &&
  -- CFF
  (if ctx.otf then
     obs .CFF_version == .str (dec (E .versionMajor).q ++ ['.'] ++ dec (E .versionMinor).q) &&
     obs .CFF_Notice == .str (cffNotice env (E .trademark)) &&
     obs .CFF_Copyright == .str (cffNotice env (E .copyright)) &&
     obs .CFF_Weight == (if E .postscriptWeightName = .none then .none else .str (E .postscriptWeightName).s) &&
     (ctx.reloaded || obs .CFF_FontMatrix == .num (fdiv 1 (otRoundF (E .unitsPerEm).q))) &&
     (info .postscriptDefaultWidthX = .none ∧ info .postscriptNominalWidthX = .none ||
       (obs .CFF_defaultWidthX == applyConv .round (E .postscriptDefaultWidthX) &&
        obs .CFF_nominalWidthX == applyConv .round (E .postscriptNominalWidthX))) &&
     obs .CFF_BlueValues == listField (anyBlues E) (E .postscriptBlueValues) &&
     obs .CFF_OtherBlues == listField (anyBlues E) (E .postscriptOtherBlues) &&
     obs .CFF_FamilyBlues == listField (anyBlues E) (E .postscriptFamilyBlues) &&
     obs .CFF_FamilyOtherBlues == listField (anyBlues E) (E .postscriptFamilyOtherBlues) &&
     -- no zones: nothing is written and the reader sees the CFF defaults
     (anyBlues E || (obs .CFF_BlueFuzz == .num 1 && obs .CFF_BlueShift == .num 7 && obs .CFF_ForceBold == .num 0 &&
                     (ctx.reloaded || obs .CFF_BlueScale == .num (lit 39625 1000000)))) &&
     obs .CFF_StemSnapH == listField (bothStems E) (E .postscriptStemSnapH) &&
     obs .CFF_StemSnapV == listField (bothStems E) (E .postscriptStemSnapV) &&
     obs .CFF_StdHW == (if bothStems E then .num ((roundList (E .postscriptStemSnapH)).getD 0 0) else .none) &&
     obs .CFF_StdVW == (if bothStems E then .num ((roundList (E .postscriptStemSnapV)).getD 0 0) else .none)
   else
     [Field.CFF_fontName, .CFF_version, .CFF_Notice, .CFF_Copyright, .CFF_FullName, .CFF_FamilyName, .CFF_Weight,
      .CFF_BlueValues, .CFF_StemSnapH].all (fun f => obs f == .none))

/-- the gasp table (TrueType-flavoured fonts only) -/
def holdsGaspField (info : Info) (ctx : Ctx) (obs : Field → FVal) : Bool :=
  if ctx.otf then obs .gasp == .none else holdsGasp (info .openTypeGaspRangeRecords).g (obs .gasp)

def holdsDerived (E : Attr → Val) (info : Info) (env : Env) (ctx : Ctx) (obs : Field → FVal) : Bool :=
  holdsDerivedCore E info env ctx obs && holdsGaspField info ctx obs

/-- the generated PostScript name (no explicit postscriptFontName) is clean -/
def holdsGeneratedPsName (E : Attr → Val) (info : Info) : Bool :=
  info .postscriptFontName ≠ .none || holdsPsName (E .postscriptFontName).s

/-- everything C16 says about one compiled font (`E` = the solution of the documented system) -/
def holdsFont (E : Attr → Val) (info : Info) (env : Env) (ctx : Ctx) (obs : Out) : Bool :=
  holdsRows E ctx obs.fields && holdsDerived E info env ctx obs.fields && holdsNames E env obs.names &&
  holdsGeneratedPsName E info

/-! ### a history of compiles on the same source objects -/

/-- compiling (with or without variable-font overrides) leaves the caller's font info as it was: every attribute of the
    source after the run is the attribute before it -/
def holdsSourceUnchanged (before after : Info) : Bool :=
  Attr.all.all (fun a => after a == before a)

end Ufo2ft.C16
