import Ufo2ftModel.Spec.Render
/-! A decidable certificate for the well-formedness hypothesis of the render-preservation theorems: the harness sends a
    rank for every glyph (its component depth); Lean checks it.  `Props/GoodCert.lean` proves that a checked certificate
    implies `Good gs rank ∧ Named gs`, so the driver can report on how many generated inputs the theorems' hypotheses hold. -/
namespace Ufo2ft

def rankOf (cert : List (String × Nat)) (n : String) : Nat := (alookup n cert).getD 0

def goodCert (gs : GlyphSet) (cert : List (String × Nat)) : Bool :=
  gs.all (fun e =>
    e.2.name == e.1 &&
    e.2.comps.all (fun k => k.t.det != 0 && decide (rankOf cert k.base < rankOf cert e.1)) &&
    e.2.contours.all (fun c => c.all (fun p => p.seg != some Seg.move)) &&
    decide (rankOf cert e.1 ≤ gs.length))

/-- the obvious certificate: longest component chain below each glyph -/
def depthCert (gs : GlyphSet) : List (String × Nat) :=
  let rec depth (fuel : Nat) (g : Glyph) : Nat :=
    match fuel with
    | 0 => 0
    | fuel + 1 => if g.comps.isEmpty then 0 else
        1 + (g.comps.map (fun k => match gs.get? k.base with | some b => depth fuel b | none => 0)).foldl max 0
  gs.map (fun e => (e.1, depth (gs.length + 1) e.2))

/-- CLOSED: every component's base is a key of the set (the decomposing pen, `_flattenComponent` and the transformations
    filter raise on a missing base; `getMaxComponentDepth` and anchor propagation skip it) -/
def closedGS (gs : GlyphSet) : Bool :=
  gs.all (fun e => e.2.comps.all (fun k => (gs.get? k.base).isSome))

/-- a Python dict has no duplicate keys -/
def nodupKeys : List String → Bool
  | [] => true
  | n :: ns => !ns.contains n && nodupKeys ns

/-- the hypotheses of the totality theorems (`Props/Total.lean`, `wfCert_sound`): the render certificate, closedness,
    distinct keys -/
def wfCert (gs : GlyphSet) : Bool := goodCert gs (depthCert gs) && closedGS gs && nodupKeys gs.names

end Ufo2ft
