import Ufo2ftModel.Model.C12Names
import Ufo2ftModel.Spec.C12
/-!
Property C12, the part about glyph identity: "every supported combination renders EACH GLYPH with the
identical sequence of drawing operations … and carries identical advance widths and layout tables" - whatever
names the glyphs end up with (production names on or off), and wherever the chosen CFF version stores them.

Everything here talks about observed fonts only (no reference to how the model computes).
-/
namespace Ufo2ft.C12
open Ufo2ft.C11 (Name)

/-- stored names (`none` = the font stores none) are one per glyph and pairwise distinct, so that a name
    identifies a glyph -/
def namesIdentify (n : Nat) : Option (List Name) → Bool
  | none => true
  | some l => l.length == n && decide l.Nodup

/-- One saved font against its source.  `src` = what each glyph of the source shows (an outline+advance digest
    per glyph index, taken from a build of the same sources without renaming), `content` = the same read from
    the saved font, `names` = the names the font stores.
    Nothing moves: glyph index k still shows source glyph k; and the names identify glyphs. -/
def holdsCarried [BEq α] (src content : List α) (names : Option (List Name)) : Bool :=
  content == src && namesIdentify src.length names

/-- Two builds of the same sources (e.g. CFF 1 and CFF 2) that both store names store the same ones:
    the CFF version decides WHERE names live, not which glyph gets which name. -/
def holdsSameNames (a b : Option (List Name)) : Bool :=
  match a, b with
  | some x, some y => x == y
  | _, _ => true

def allSameNames : List (Option (List Name)) → Bool
  | [] => true
  | a :: l => l.all (holdsSameNames a) && allSameNames l

end Ufo2ft.C12
