import Ufo2ftModel.Model.C09Shape
/-!
C09 declaratively: *point compatibility* of a family of masters, *jointness* of the decomposition decisions, and the
content of a sparse master.  Nothing here mentions how the pre-processor computes.
-/
namespace Ufo2ft.C09
open Ufo2ft

/-- the interpolation-relevant structure of a glyph: per contour the point types in order (`none` = off-curve),
    and the base glyph names of the components in order -/
abbrev Shape := List (List (Option Seg)) × List String

def shape (g : Glyph) : Shape := (g.contours.map contourShape, g.comps.map (fun k => k.base))

/-- the empty stand-ins ufo2ft puts into sparse masters (`.notdef` fallback, missing component bases): advance
    0xFFFF tells varLib that the glyph does not take part; they are not subject to compatibility -/
def isSentinel (g : Glyph) : Bool := glyphEmpty g && g.width == sentinel && g.height == sentinel

def allEq [BEq α] : List α → Bool
  | [] => true
  | a :: l => l.all (fun b => b == a)

/-- shapes of the real glyphs called `n`, one per master that has it -/
def shapesOf (ms : Masters) (n : String) : List Shape :=
  ((glyphsNamed ms n).filter (fun g => !isSentinel g)).map shape

/-- masters are point-compatible: same-named glyphs have equal shape -/
def compatible (ms : Masters) : Bool := (allNames ms).all (fun n => allEq (shapesOf ms n))

/-- component structure only (contours may differ, e.g. a glyph that is mixed in one master only) -/
def compSeqsOf (ms : Masters) (n : String) : List (List String) :=
  ((glyphsNamed ms n).filter (fun g => !isSentinel g)).map (fun g => g.comps.map (fun k => k.base))

def compCompatible (ms : Masters) : Bool := (allNames ms).all (fun n => allEq (compSeqsOf ms n))

/-- every component refers to a glyph that exists in at least one master (a dangling reference is malformed input:
    TrueType compilers drop such a component in the default master and keep it, pointing to a placeholder, elsewhere) -/
def refsClosed (ms : Masters) : Bool :=
  ms.all (fun (m : GlyphSet) => m.all (fun e => e.2.comps.all (fun k => (allNames ms).contains k.base)))

/-- **compatibility is kept** -/
def holdsCompat (src out : Masters) : Bool := !compatible src || compatible out

/-- **decisions are joint**: if the masters agree on every glyph's component list, they still do afterwards
    (a glyph is decomposed / flattened / pruned in all masters or in none) -/
def holdsJoint (src out : Masters) : Bool := !compCompatible src || compCompatible out

/-- the 2×2 parts of the components of the real glyphs called `n`, one list per master that has it -/
def twoByTwosOf (ms : Masters) (n : String) : List (List (Q × Q × Q × Q)) :=
  ((glyphsNamed ms n).filter (fun g => !isSentinel g)).map (fun g => g.comps.map (fun k => k.t.linear))

/-- **what stays a composite has the same 2×2 in every master** (a variable glyf component can vary its offset only):
    masters that agree on component lists come out with equal 2×2 matrices on every remaining component -/
def holdsTwoByTwo (src out : Masters) : Bool :=
  !compCompatible src || (allNames out).all (fun n => allEq (twoByTwosOf out n))

/-- `n` is tied to one of `targets` by component references (in any master of the family) -/
def reaches (fuel : Nat) (src : Masters) (targets : List String) (n : String) : Bool :=
  match fuel with
  | 0 => false
  | fuel + 1 =>
    (glyphsNamed src n).any (fun g => g.comps.any (fun k => targets.contains k.base || reaches fuel src targets k.base))

def referencedIn (m : GlyphSet) (n : String) : Bool := m.any (fun e => e.2.comps.any (fun k => k.base == n))

/-- what one glyph of a sparse master's output may be -/
def sparseGlyphOk (src : Masters) (layer out : GlyphSet) (n : String) (g : Glyph) : Bool :=
  n == ".notdef" || (layer.get? n).isSome ||
  (isSentinel g && referencedIn out n) ||                                  -- empty placeholder for a missing base
  (!isSentinel g && reaches ((allNames src).length + 1) src layer.names n)  -- composite tied to the layer's glyphs

/-- **sparse masters**: `.notdef`, the layer's glyphs, and beyond those only glyphs tied to them by component
    references; a full master gets nothing but `.notdef` and — unless it is the default master of a designspace build, or the
    build has no designspace (`dflt = none`) — empty placeholders for missing component bases;
    and no master loses a glyph that is not in `skip` -/
def holdsSparse (sparse : List Bool) (dflt : Option Nat) (skip : List String) (src out : Masters) : Bool :=
  (((src.zip out).zip sparse).zipIdx).all (fun (((layer, o), sp), i) =>
    let mayHavePlaceholders := match dflt with | some d => i != d | none => false
    o.all (fun e =>
      if sp then sparseGlyphOk src layer o e.1 e.2
      else e.1 == ".notdef" || (layer.get? e.1).isSome || (mayHavePlaceholders && isSentinel e.2 && referencedIn o e.1)) &&
    o.any (fun e => e.1 == ".notdef") &&
    layer.all (fun e => skip.contains e.1 || (o.get? e.1).isSome) &&
    o.all (fun e => !skip.contains e.1 || isSentinel e.2))

/-! compiled fonts: the same notion on what a master TTF/OTF contains -/

structure CGlyph where
  name : String
  sentinel : Bool                   -- advance 0xFFFF and no outline
  contours : List (List String)     -- glyf: "on"/"off" per point; CFF: operator per segment
  comps : List String
  deriving BEq

def cshapesOf (fonts : List (List CGlyph)) (n : String) : List (List (List String) × List String) :=
  fonts.filterMap (fun f => (f.find? (fun g => g.name == n && !g.sentinel)).map (fun g => (g.contours, g.comps)))

def compatibleC (fonts : List (List CGlyph)) : Bool :=
  (dedupFirst (fonts.flatMap (fun f => f.map (fun g => g.name)))).all (fun n => allEq (cshapesOf fonts n))

def holdsCompiled (src : Masters) (fonts : List (List CGlyph)) : Bool :=
  !compatible src || !refsClosed src || compatibleC fonts

end Ufo2ft.C09
