import Ufo2ftModel.Model.C13
import Ufo2ftModel.Spec.Render
import Ufo2ftModel.Spec.C03
import Ufo2ftModel.Model.C13VF
import Ufo2ftModel.Spec.Good
/-! C13 declaratively: what must be true of (source glyph set, skip list, reduced glyph set). -/
namespace Ufo2ft.C13
open Ufo2ft

/-- names of remaining glyphs whose resolved outline (as a multiset of contours), advance or anchors changed,
    or that still reference a skipped glyph -/
def skipWrong (skip : List String) (before after : GlyphSet) : List String :=
  (after.filter (fun (n, g') =>
    match before.get? n with
    | none => true
    | some g =>
      skip.contains n ||
      !(sameDrawing (nonsingularFrom (before.length + 1) before g) (renderGlyph after g') (renderGlyph before g) &&
        g'.width == g.width && g'.height == g.height && g'.anchors == g.anchors &&
        g'.comps.all (fun k => !skip.contains k.base)))).map (·.1)

/-- skipped glyphs are gone, the others are all there in the same relative order, and none of them changed -/
def holdsSkip (skip : List String) (before after : GlyphSet) : Bool :=
  (skipWrong skip before after).isEmpty && after.names == before.names.filter (fun n => !skip.contains n)

/-- compiled glyph order with a skip list = order without it, filtered -/
def holdsOrder (skip : List String) (orderFull orderSkip : List String) : Bool :=
  orderSkip == orderFull.filter (fun n => !skip.contains n)

/-- two renderings of one glyph (contours as canonically sorted point lists) agree up to the rounding of interpolated
    coordinates (one font unit per coordinate) -/
def closeDrawing (a b : List (List (Int × Int))) : Bool :=
  a.length == b.length &&
  (a.zip b).all (fun (c, d) => c.length == d.length &&
    (c.zip d).all (fun (p, q) => (p.1 - q.1).natAbs ≤ 1 && (p.2 - q.2).natAbs ≤ 1))

/-- variable font built with a skip list vs without: same glyph order up to the skipped names; at every sampled location
    every remaining glyph has the same advance and draws the same contours -/
def vfWrong (skip : List String) (orderFull orderSkip : List String)
    (samples : List (String × String × Int × Int × List (List (Int × Int)) × List (List (Int × Int)))) : List String :=
  (if holdsOrder skip orderFull orderSkip then [] else ["<order>"]) ++
  (samples.filter (fun (_, _, advF, advS, dF, dS) => !(advF == advS && closeDrawing dF dS))).map (fun (loc, n, _) => loc ++ ":" ++ n)


/-- interpolatable masters (`compileInterpolatable*FromDS`) built with a skip list vs without, master by master — the
    sources may be SPARSE in any way (a listed glyph drawn in a non-default source only, missing from the default source):
    in EVERY compiled master no listed name is in the glyph order, in the metrics or in the character map; the order is the
    order without the list up to the listed names; every remaining glyph keeps its advance and drawing; the character map is
    the one without the list restricted to the remaining glyphs.
    One entry per master: (name, orderFull, orderSkip, hmtxNamesSkip, samples as in `vfWrong`, cmapFull, cmapSkip) -/
def ifWrong (skip : List String)
    (masters : List (String × List String × List String × List String ×
      List (String × String × Int × Int × List (List (Int × Int)) × List (List (Int × Int))) ×
      List (Nat × String) × List (Nat × String))) : List String :=
  masters.flatMap (fun (m, orderFull, orderSkip, hmtxSkip, samples, cmapFull, cmapSkip) =>
    ((orderSkip.filter (fun n => skip.contains n)).map (fun n => m ++ ":<listed glyph in glyph order>:" ++ n)) ++
    ((hmtxSkip.filter (fun n => skip.contains n)).map (fun n => m ++ ":<listed glyph in hmtx>:" ++ n)) ++
    ((cmapSkip.filter (fun e => skip.contains e.2)).map (fun e => m ++ ":<listed glyph in cmap>:" ++ e.2)) ++
    (if cmapSkip == cmapFull.filter (fun e => !skip.contains e.2) then [] else [m ++ ":<cmap>"]) ++
    (vfWrong skip orderFull orderSkip samples).map (fun s => m ++ ":" ++ s))


/-! ### a decidable certificate for the hypotheses of `C13_vf_render` -/

/-- the family is well-formed in the sense of `C13_vf_render` (`Props/C13VFCert.lean`: a checked certificate implies
    `WFSkip I ms (rankOf cert)`): one location per source, no location twice, default source at 0 holding every glyph; same-named
    glyphs alike (`sh`: point types, component bases and 2×2 parts, anchor names); `cert` ranks strictly decreasing along
    components and bounded by the number of names; non-singular components; closed contours; every glyph has sources on both
    sides of (or at) every source location; no glyph name twice in a glyph set -/
def famCertBase (I : C09.Inst) (ms : C09.Masters) (cert : List (String × Nat)) : Bool :=
  let d := ms.getD I.defaultIdx []
  I.locs.length == ms.length && decide I.locs.Nodup &&
  decide (I.defaultIdx < ms.length) && I.locs[I.defaultIdx]? == some 0 &&
  ms.all (fun m => m.all (fun e => (d.get? e.1).isSome)) &&
  ms.all (fun m1 => ms.all (fun m2 => m1.all (fun e => match m2.get? e.1 with
    | none => true
    | some g2 => sh e.2 == sh g2))) &&
  ms.all (fun m => m.all (fun e =>
    e.2.comps.all (fun k => k.t.det != 0 && decide (rankOf cert k.base < rankOf cert e.1)) &&
    e.2.contours.all (fun c => c.all (fun p => p.seg != some Seg.move)))) &&
  d.all (fun e => I.locs.all (fun l =>
    (C09.sourceLocs I ms e.1).any (fun l' => decide (l' ≤ l)) && (C09.sourceLocs I ms e.1).any (fun l' => decide (l ≤ l')))) &&
  ms.all (fun m => decide (m.map (·.1)).Nodup) &&
  cert.all (fun c => decide (c.2 ≤ (C09.allNames ms).length))

/-- … and the model of the filter cannot fail on it (`Props/C13VFTotal.lean`: `skipFamily_ok`): in addition every glyph is
    stored under its own name, and every component refers to a glyph the default source has (no dangling reference — the real
    filter raises `MissingComponentError` on a dangling reference to a skipped name) -/
def famCert (I : C09.Inst) (ms : C09.Masters) (cert : List (String × Nat)) : Bool :=
  let d := ms.getD I.defaultIdx []
  famCertBase I ms cert &&
  ms.all (fun m => m.all (fun e => e.2.name == e.1 && e.2.comps.all (fun k => (d.get? k.base).isSome)))

/-- `t` lies between the sources -/
def inHull (I : C09.Inst) (t : Q) : Bool := I.locs.any (fun l => decide (l ≤ t)) && I.locs.any (fun l => decide (t ≤ l))

/-! ### the drawing of the model's variable font, in the canonical form the harness observes -/

def leP (a b : Int × Int) : Bool := a.1 < b.1 || (a.1 == b.1 && a.2 ≤ b.2)

/-- Python's order on lists of points -/
def leL : List (Int × Int) → List (Int × Int) → Bool
  | [], _ => true
  | _ :: _, [] => false
  | a :: as, b :: bs => if a == b then leL as bs else leP a b

/-- contours as sorted sets of (rounded) points, the contours sorted: `sorted(sorted(set(c)) for c in contours)` -/
def canonDrawing (cs : List Contour) : List (List (Int × Int)) :=
  ((cs.filter (fun c => !c.isEmpty)).map (fun c =>
    ((List.map (fun (p : Pt) => (otRound p.x, otRound p.y)) c).mergeSort leP).eraseDups)).mergeSort leL

/-- what the model's variable fonts (without and with the skip list) show at the sampled locations:
    (location, glyph, advance without / with, drawing without / with) for every non-skipped glyph of the family -/
def vfModel (skip : List String) (I : C09.Inst) (ms ms' : C09.Masters) (locs : List Q) :
    List (Q × String × Option Q × Option Q × List (List (Int × Int)) × List (List (Int × Int))) :=
  locs.flatMap (fun t => ((C09.allNames ms).filter (fun n => !skip.contains n)).map (fun n =>
    (t, n, advanceAt I ms t n, advanceAt I ms' t n, canonDrawing (renderAt I ms t n), canonDrawing (renderAt I ms' t n))))

end Ufo2ft.C13
