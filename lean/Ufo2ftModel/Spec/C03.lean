import Ufo2ftModel.Model.C03
/-!
Declarative statement of property C03, as decidable predicates on (input, output).
The predicates are evaluated by the driver on the *implementation's* output.
-/
namespace Ufo2ft.C03

def ND : String := ".notdef"

/-- names from the requested order that exist, first occurrence only, `.notdef` apart -/
def listed (names go : List String) : List String :=
  (go.filter (fun n => n != ND && names.contains n)).eraseDups

/-- '.notdef' first, then the listed glyphs in that order, then the rest sorted. -/
def specOrder (names go : List String) : List String :=
  ND :: (listed names go ++
    sortStr (names.filter (fun n => n != ND && !(listed names go).contains n)))

def holdsOrder (names go obs : List String) : Bool := obs == specOrder names go

/-- all (code point, glyph) declarations of the source, read off directly -/
def declared (glyphs : List (String × List Nat)) : List (Nat × String) :=
  glyphs.flatMap (fun g => g.2.map (fun u => (u, g.1)))

/-- no code point declared twice (across glyphs or inside one glyph) -/
def noDup (glyphs : List (String × List Nat)) : Bool :=
  decide ((declared glyphs).map (·.1)).Nodup

/-- what the character map must contain: every declaration, nothing else;
 >0xFFFF only in the 32-bit subtables, which hold everything. `obs4`/`obs12` are the
 (sorted) contents of the format-4 / format-12 subtables of the compiled font. -/
def holdsCmap (glyphs : List (String × List Nat)) (obs4 : List (Nat × String))
    (obs12 : Option (List (Nat × String))) : Bool :=
  let all := declared glyphs
  let want4 := all.filter (fun e => e.1 ≤ 65535)
  obs4.isPerm want4 &&
  (match obs12 with
   | none => all.all (fun e => e.1 ≤ 65535)
   | some t => all.any (fun e => e.1 > 65535) && t.isPerm all)

/-- variation sequences: default iff the record names the base mapping's glyph -/
def holdsUvs (glyphs : List (String × List Nat)) (req : List (Nat × String))
    (obs : List (Nat × Option String)) : Bool :=
  obs == req.map (fun r => if (declared glyphs).contains (r.1, r.2) then (r.1, none) else (r.1, some r.2))

end Ufo2ft.C03
