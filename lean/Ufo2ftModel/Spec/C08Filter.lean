import Ufo2ftModel.Model.C08Filter
/-!
Property C08, predicates for a filter object used on several fonts (declarative, on OBSERVED data).

* `holdsOriginHistory` — what the k-th call of a SHARED instance worked with (origin heights, context matrix) is what a fresh
                         instance with the same options works with on that font.
* `holdsOriginHeights` — the five origin heights of one font: baseline 0; cap height / x height = the fontinfo value when there
                         is one, else the integer nearest (half up) to 0.7 / 0.5 units-per-em (1000 when unset); the half
                         heights = the integer nearest (half up) to half of THOSE heights.
-/
namespace Ufo2ft.C08

/-- `h` is the integer with h ≤ x + 1/2 < h + 1 -/
def isRoundOf (x h : Q) : Bool := h.den == 1 && decide (h ≤ x + 1/2) && decide (x + 1/2 < h + 1)

/-- `hs` = heights for Origin 0, 1, 2, 3, 4 of a font with these fontinfo values -/
def holdsOriginHeights (upm cap xh : Option Q) (hs : List Q) : Bool :=
  match hs with
  | [c, hc, x, hx, b] =>
    let u := upm.getD 1000
    (match cap with | some v => c == v | none => isRoundOf (u * 7 / 10) c) && isRoundOf (c / 2) hc &&
    (match xh with | some v => x == v | none => isRoundOf (u / 2) x) && isRoundOf (x / 2) hx && b == 0
  | _ => false

/-- per call: everything observed of a fresh instance / of the shared one -/
def holdsOriginHistory (fresh shared : List (List Q)) : Bool := shared == fresh

end Ufo2ft.C08
