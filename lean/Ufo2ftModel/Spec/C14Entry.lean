import Ufo2ftModel.Spec.C14
/-!
C14, "it never touches the source font when given a separate glyph set", at the entry of the call: a filter that
was given a glyph set works on THAT object (observed: `filter.context.glyphSet is glyphSet`), whatever it contains;
and on a glyph set without glyphs there is nothing to change, add, remove or report.
-/
namespace Ufo2ft.C14

/-- `onGiven`: whether the object the filter worked on is the glyph set it was given (none = not observable:
 the call set no context) -/
def holdsEntry (separate : Bool) (onGiven : Option Bool) : Bool :=
  match onGiven with
  | none => true
  | some b => !separate || b

/-- a successful call on an EMPTY separate glyph set: the glyph set is still empty and nothing of the font changed
 (`srcChanged` lists what did).  The returned set is not constrained here (over-reporting is not against C14); that
 it is empty is a theorem about the model (C14_entry_empty) and part of the correspondence. -/
def holdsEmptyCall (gs' : GlyphSet) (srcChanged : List String) : Bool :=
  gs'.isEmpty && srcChanged.isEmpty

end Ufo2ft.C14
