import Ufo2ftModel.Model.Geom
/-!
The specification renderer: what a glyph *draws*, with all component references resolved by ONE composed
matrix per leaf and contour direction reversed iff the composed determinant is negative.
Independent of how ufo2ft's pens compute it.
-/
namespace Ufo2ft

mutual
def render (fuel : Nat) (gs : GlyphSet) (t : Affine) (g : Glyph) : List Contour :=
  match fuel with
  | 0 => []
  | fuel + 1 =>
    g.contours.map (fun c => Contour.map t (if t.det < 0 then reverseContour c else c))
      ++ renderComps fuel gs t g.comps
def renderComps (fuel : Nat) (gs : GlyphSet) (t : Affine) (ks : List Comp) : List Contour :=
  match ks with
  | [] => []
  | k :: ks =>
    (match gs.get? k.base with
     | some b => render fuel gs (t.compose k.t) b
     | none => []) ++ renderComps fuel gs t ks
end

/-- resolved outline of a glyph of the set -/
def renderGlyph (gs : GlyphSet) (g : Glyph) : List Contour := render (gs.length + 2) gs Affine.id g

def ptLe (a b : Q × Q) : Bool := a.1 < b.1 || (a.1 == b.1 && a.2 ≤ b.2)
/-- direction-blind key of a contour: its points as a sorted multiset -/
def pointsKey (c : Contour) : List (Q × Q) := (List.map (fun (p : Pt) => (p.x, p.y)) c).mergeSort ptLe

/-- all components reachable from `g` have a non-singular matrix (bounded search) -/
def nonsingularFrom (fuel : Nat) (gs : GlyphSet) (g : Glyph) : Bool :=
  match fuel with
  | 0 => true
  | fuel + 1 => g.comps.all (fun k => k.t.det != 0 &&
      (match gs.get? k.base with | some b => nonsingularFrom fuel gs b | none => true))

/-- same drawing: as multisets of contours (exact points, order, types, direction); when a singular component
    is involved direction is meaningless (degenerate outline) and only the point multisets are compared -/
def sameDrawing (exact : Bool) (a b : List Contour) : Bool :=
  if exact then a.isPerm b else (a.map pointsKey).isPerm (b.map pointsKey)

end Ufo2ft
