import Ufo2ftModel.Model.C06Ctx
/-!
C06 — generated mark features make matching anchors coincide: the statement.

Two parts:
 * the *shaper semantics* of a list of mark-attachment lookups (`attach`): what offset a mark glyph `m`
   following a glyph `b` (component `c` of a ligature) ends up with — the last lookup that applies wins;
 * the property, written on the SOURCE anchors (plain names, no parsing): `holdsOffset`, `holdsSound`,
   `holdsComplete` take the input and an attachment table (observed from the compiled font, or computed from
   the model's lookups) and say whether that table is what the property demands.
-/
namespace Ufo2ft.C06

/-! ### shaper semantics of MarkBasePos / MarkLigPos / MarkMarkPos lookups -/

/-- the mark classes a lookup refers to (its MarkArray is built from their members) -/
def usedClasses (L : Lookup) : List String := L.entries.flatMap (fun e => e.comps.flatMap (fun comp => comp.map (·.1)))

/-- the mark record of glyph `m` in the lookup's mark array: (class, anchor) -/
def markIn (P : Program) (L : Lookup) (m : String) : Option (String × Int × Int) :=
  P.classes.findSome? (fun e =>
    if (usedClasses L).contains e.1 then (e.2.find? (fun r => r.glyph == m)).map (fun r => (e.1, r.x, r.y)) else none)

/-- a query with a component index is answered by mark-to-ligature lookups only, one without by
    mark-to-base and mark-to-mark lookups -/
def kindMatches : Kind → Option Nat → Bool
  | .liga, some _ => true
  | .base, none => true
  | .mkmk, none => true
  | _, _ => false

/-- one lookup: `b` must be covered, `m` must be in the mark array, and `b`'s record must have a non-NULL
    anchor for `m`'s class; the offset is base anchor − mark anchor -/
def attachLookup (P : Program) (L : Lookup) (b m : String) (c : Option Nat) : Option (Int × Int) :=
  if kindMatches L.kind c then
    match L.entries.find? (fun e => e.glyph == b), markIn P L m with
    | some e, some (cn, mx, my) =>
      match e.comps[c.getD 0]? with
      | some comp =>
        match (comp.filter (fun t => t.1 == cn)).getLast? with
        | some t => some (t.2.1 - mx, t.2.2 - my)
        | none => none
      | none => none
    | _, _ => none
  else none

/-- the attachment produced by the LAST lookup (in lookup-list order) that applies -/
def attach (P : Program) (ls : List Lookup) (b m : String) (c : Option Nat) : Option (Int × Int) :=
  ls.reverse.findSome? (fun L => attachLookup P L b m c)

/-! ### the property on source anchors -/

/-- the coordinate that ends up in the font: quantise, then otRound -/
def qround (q x : Q) : Int := otRound (quantize q x)

/-- `name` = k ++ "_" ++ digits, where the digits denote `n` (the ligature anchor of key `k` for component number `n`;
    with `k = ""` the key-less `_n` anchor that declares component `n` empty) -/
def isLigName (k : List Char) (n : Nat) (name : List Char) : Bool :=
  (k ++ ['_']).isPrefixOf name &&
  !(name.drop (k.length + 1)).isEmpty && (name.drop (k.length + 1)).all Char.isDigit &&
  digitsToNat (name.drop (k.length + 1)) == n

/-- a base-side anchor name answering key `k`: `k` itself when no component is asked for,
    `k_N` with N = c+1 for component index c -/
def baseNameMatches (k : List Char) (c : Option Nat) (name : List Char) : Bool :=
  match c with
  | none => name == k
  | some j => isLigName k (j + 1) name

def findGlyph (i : Input) (g : String) : Option SrcGlyph := i.glyphs.find? (fun s => s.name == g)

/-- the key of a mark-side anchor name `_k` -/
def markKey (name : List Char) : Option (List Char) :=
  match name with
  | c :: k => if c = '_' ∧ k ≠ [] then some k else none
  | [] => none

/-- every offset "anchor on b minus anchor on m" over the source anchor pairs whose names match -/
def candidates (i : Input) (b m : String) (c : Option Nat) : List (Int × Int) :=
  match findGlyph i b, findGlyph i m with
  | some gb, some gm =>
    gm.anchors.flatMap (fun am =>
      match markKey am.name.toList with
      | some k =>
        (gb.anchors.filter (fun ab => baseNameMatches k c ab.name.toList)).map (fun ab =>
          (qround i.quant ab.x - qround i.quant am.x, qround i.quant ab.y - qround i.quant am.y))
      | none => [])
  | _, _ => []

abbrev Query := String × String × Option Nat
/-- an attachment table: the queries that get an attachment, with the offset -/
abbrev Table := List (Query × (Int × Int))

/-- C06_offset / C06_candidate: every attachment is base anchor − mark anchor of a matching source anchor pair -/
def holdsOffset (i : Input) (T : Table) : Bool :=
  T.all (fun e => (candidates i e.1.1 e.1.2.1 e.1.2.2).contains e.2)

/-- C06_sound: no matching anchor names ⇒ no attachment (also: ligature gaps are NULL) -/
def holdsSound (i : Input) (T : Table) : Bool :=
  T.all (fun e => !(candidates i e.1.1 e.1.2.1 e.1.2.2).isEmpty)

/-- the name ends with "_" followed by digits (it would be read as a ligature anchor name) -/
def endsSepDigits (k : List Char) : Bool :=
  !(k.reverse.takeWhile Char.isDigit).isEmpty && (k.reverse.dropWhile Char.isDigit).head? == some '_'

/-- an anchor key that can be used for plain (`k`), mark (`_k`) and ligature (`k_N`) anchors alike -/
def plainKey (k : List Char) : Bool :=
  match k with
  | [] => false
  | c :: _ => c.isAlpha && !endsSepDigits k

/-- the name under which an anchor takes part in pairing: a contextual anchor ('*'-prefixed WITH object-lib data) counts
    under its name without the '*' and without the '.suffix' -/
def pairName (a : SrcAnchor) : List Char :=
  if a.lib.isSome then effName a.name.toList else a.name.toList

/-- `g` carries a base-side anchor of key `k` (`k` or `k_N`), plain or contextual -/
def hasBaseSide (g : SrcGlyph) (k : List Char) : Bool :=
  g.anchors.any (fun a => pairName a == k ||
    ((k ++ ['_']).isPrefixOf (pairName a) && !((pairName a).drop (k.length + 1)).isEmpty &&
      ((pairName a).drop (k.length + 1)).all Char.isDigit))

/-- "mark glyph" in the writer's sense: (listed as a mark when categories exist and) it has a `_k` anchor whose
    key is answered by some base-side anchor in the font -/
def isMarkGlyph (i : Input) (g : SrcGlyph) : Bool :=
  included i g.name && markOK i g.name &&
  g.anchors.any (fun a => match markKey a.name.toList with
    | some k => plainKey k && i.glyphs.any (fun h => included i h.name && hasBaseSide h k)
    | none => false)

/-- the (b, m, c) for which the property demands an attachment: a matching pair of anchors on a plain key,
    and both glyphs pass the GDEF / category filters of the writer -/
def eligible (i : Input) (b m : String) (c : Option Nat) : Bool :=
  match findGlyph i b, findGlyph i m with
  | some gb, some gm =>
    included i b && included i m && markOK i m &&
    (match c with
     | none => isMarkGlyph i gb || baseOK i b
     | some j => !isMarkGlyph i gb && ligOK i b &&
        !gb.anchors.any (fun a => isLigName [] (j + 1) a.name.toList)) &&
    gm.anchors.any (fun am => match markKey am.name.toList with
      | some k => plainKey k && gb.anchors.any (fun ab => baseNameMatches k c ab.name.toList)
      | none => false)
  | _, _ => false

/-- all queries over the glyphs of the font with component indices < K -/
def allQueries (i : Input) (K : Nat) : List Query :=
  i.glyphs.flatMap (fun gb => i.glyphs.flatMap (fun gm =>
    (none :: (List.range K).map some).map (fun c => (gb.name, gm.name, c))))

/-- C06_complete: every eligible query is attached -/
def holdsComplete (i : Input) (K : Nat) (T : Table) : Bool :=
  (allQueries i K).all (fun q => !eligible i q.1 q.2.1 q.2.2 || T.any (fun e => e.1 == q))

/-- contextual candidates: offsets "contextual anchor on b minus anchor on m": the anchor on `b` is '*'-prefixed, carries
    object-lib data, and its name without '*' and '.suffix' answers the key of `_k` on `m` -/
def ctxCandidates (i : Input) (b m : String) (c : Option Nat) : List (Int × Int) :=
  match findGlyph i b, findGlyph i m with
  | some gb, some gm =>
    gm.anchors.flatMap (fun am =>
      match markKey am.name.toList with
      | some k =>
        (gb.anchors.filter (fun ab => ab.lib.isSome && ab.name.toList.head? == some '*' &&
            baseNameMatches k c (effName ab.name.toList))).map (fun ab =>
          (qround i.quant ab.x - qround i.quant am.x, qround i.quant ab.y - qround i.quant am.y))
      | none => [])
  | _, _ => []

/-- C06_ctx_offset: every attachment of a lookup referenced from a contextual (chaining) rule is contextual anchor −
    mark anchor for a matching pair of source anchors -/
def holdsCtxOffset (i : Input) (T : Table) : Bool :=
  T.all (fun e => (ctxCandidates i e.1.1 e.1.2.1 e.1.2.2).contains e.2)

/-- the (effective) name `nm` is a base-side name of key `k`: `k` itself or `k_N` -/
def answersKey (k nm : List Char) : Bool :=
  nm == k || ((k ++ ['_']).isPrefixOf nm && !(nm.drop (k.length + 1)).isEmpty && (nm.drop (k.length + 1)).all Char.isDigit)

/-- the GPOS_Context of a contextual source anchor, as the writer uses it (`.strip()`) -/
def ctxOfSrc (a : SrcAnchor) : String := stripSp (a.lib.getD "")

/-- `a2` is a contextual anchor (with object-lib data) for the same context and the same anchor key as the one at hand -/
def ctxCompetes (k : List Char) (ctx : String) (a2 : SrcAnchor) : Bool :=
  a2.lib.isSome && a2.name.toList.head? == some '*' && ctxOfSrc a2 == ctx && answersKey k (effName a2.name.toList)

/-- the contextual anchor `sb` of glyph `gb` must give mark `gm` a contextual attachment for component `c`:
    `sb` = `*k[.suffix]` (or `*k_N[.suffix]`, N = c+1) with a non-empty GPOS_Context, `gm` has `_k` on a plain key, both glyphs
    pass the writer's GDEF / category filters for the destination (mark-to-mark when `gb` is a mark glyph, else ligature for a
    numbered anchor, else base), and no other anchor of `gb` competes: the name of `sb` occurs once in the glyph and no other
    contextual anchor of `gb` has the same context and answers the same key (feaLib keeps one `pos` statement per glyph and
    lookup, so of several the last one wins — for ligature anchors even across components) -/
def ctxEligible (i : Input) (gb gm : SrcGlyph) (c : Option Nat) (sb : SrcAnchor) : Bool :=
  sb.lib.isSome && sb.name.toList.head? == some '*' && ctxOfSrc sb != "" &&
  included i gb.name && included i gm.name && markOK i gm.name &&
  (match c with
   | none => isMarkGlyph i gb || baseOK i gb.name || ligIn i gb.name
   | some _ => !isMarkGlyph i gb && ligOK i gb.name) &&
  (gb.anchors.filter (fun a2 => a2.name == sb.name)).length == 1 &&
  gm.anchors.any (fun am => match markKey am.name.toList with
    | some k => plainKey k && baseNameMatches k c (effName sb.name.toList) &&
        gb.anchors.all (fun a2 => a2.name == sb.name || !ctxCompetes k (ctxOfSrc sb) a2)
    | none => false)

/-- the feature that carries the contextual attachments of glyph `gb` -/
def ctxFeatureOf (i : Input) (gb : SrcGlyph) : String := if isMarkGlyph i gb then "mkmk" else "mark"

/-- C06_ctx_complete on one feature's contextual part (`refs` = the attachment table of every lookup referenced from a
    chaining rule, `disp` = the dispatch lookups: text before ';' ↦ (comment, statement) lines): every eligible contextual
    attachment is made by some referenced lookup, and its context is dispatched (a line commented "# <context>" under the
    lookupflag text before the ';') -/
def holdsCtxComplete (i : Input) (K : Nat) (feat : String) (refs : List Table) (disp : List (String × List (String × String))) :
    Bool :=
  i.glyphs.all (fun gb => gb.anchors.all (fun sb => i.glyphs.all (fun gm => (none :: (List.range K).map some).all (fun c =>
    !(ctxEligible i gb gm c sb && ctxFeatureOf i gb == feat) ||
    (refs.any (fun T => T.any (fun e => e.1 == (gb.name, gm.name, c))) &&
      (match splitCtx (ctxOfSrc sb) with
       | .ok ba => disp.any (fun d => d.1 == ba.1 && d.2.any (fun l => l.1 == "# " ++ ba.2))
       | .error _ => true))))))

/-- the table a program yields on a list of queries -/
def tableOf (P : Program) (ls : List Lookup) (qs : List Query) : Table :=
  qs.filterMap (fun q => (attach P ls q.1 q.2.1 q.2.2).map (fun d => (q, d)))

/-- inputs of the theorems: glyph names are distinct; the abvm split covers every glyph; the feature file defines no mark
    class of its own (with hand-written classes the generated class names, and so which candidate wins, depend on them:
    covered by the correspondence run and the predicates on observed fonts only).  Anchor names are arbitrary: two names that
    ast.makeFeaClassName reduces to the same class name ('top-alt' / 'topalt') get different classes (C06_classes_injective). -/
def wf0 (i : Input) : Bool :=
  i.pre.isEmpty &&
  decide ((i.glyphs.map (·.name)).Nodup) &&
  i.glyphs.all (fun g => i.abvm.contains g.name || i.notAbvm.contains g.name)

/-- `wf0` and no anchor carries object-lib data (no contextual attachments, no `public.objectLibs` access): the inputs of
    the theorems about the complete set of lookups; the contextual theorems need `wf0` only -/
def wf (i : Input) : Bool :=
  wf0 i && i.glyphs.all (fun g => g.anchors.all (fun a => a.lib.isNone))

end Ufo2ft.C06
