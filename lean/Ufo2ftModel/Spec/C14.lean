import Ufo2ftModel.Model.C14
/-!
Property C14 as decidable predicates on (input, output).  They are evaluated by the driver on what the
real filter objects were OBSERVED to do: the glyph set before, the glyph set after, the returned set,
whether anything of the source font changed, and what a reused / a fresh filter object returned.

"A glyph filter never changes a glyph that is neither included nor referenced as a component by an
included glyph; it reports as modified every glyph it changed, added or removed; it never touches the
source font when given a separate glyph set; it carries no state from one invocation to the next."
-/
namespace Ufo2ft.C14

/-- a glyph is *included* when it exists and the include predicate accepts it -/
def includedB (incl : Include) (gs : GlyphSet) (n : String) : Bool :=
  match alookup n gs with
  | some g => incl n g
  | none => false

/-- the components of the glyph called `n` -/
def compsOf (gs : GlyphSet) (n : String) : List Comp :=
  match alookup n gs with
  | some g => g.comps
  | none => []

/-- `b` is `a` or is referenced from `a` through a chain of at most `fuel - 1` component references -/
def reachB (gs : GlyphSet) : Nat → String → String → Bool
  | 0, _, _ => false
  | fuel + 1, a, b => a == b || (compsOf gs a).any (fun c => reachB gs fuel c.base b)

/-- the declared footprint of a filter class:
 * `self`  – only included glyphs (decompose, decomposeTransformed, flatten, transformations,
             reverseContourDirection, sortContours, removeOverlaps, cubicToQuadratic);
 * `reach` – included glyphs and the glyphs they reference, transitively (propagateAnchors);
 * `selfOr l` – included glyphs and the glyphs named in `l` (skipExportGlyphs removes those). -/
inductive Footprint
  | self
  | reach
  | selfOr (l : List String)

def allowedB (fp : Footprint) (incl : Include) (gs : GlyphSet) (n : String) : Bool :=
  match fp with
  | .self => includedB incl gs n
  | .reach => (keys gs).any (fun m => includedB incl gs m && reachB gs (gs.length + 1) m n)
  | .selfOr l => includedB incl gs n || l.contains n

/-- names whose entry differs between the two glyph sets (changed, added or removed) -/
def changedNames (gs gs' : GlyphSet) : List String :=
  ((keys gs ++ keys gs').eraseDups).filter (fun n => alookup n gs != alookup n gs')

/-- footprint: every changed / added / removed glyph is one the filter was asked to touch -/
def holdsFootprint (fp : Footprint) (incl : Include) (gs gs' : GlyphSet) : Bool :=
  (changedNames gs gs').all (allowedB fp incl gs)

/-- reporting: every changed / added / removed glyph is in the returned set (over-reporting is allowed) -/
def holdsReport (gs gs' : GlyphSet) (modified : List String) : Bool :=
  (changedNames gs gs').all (fun n => modified.contains n)

/-- one successful invocation -/
def holdsCall (fp : Footprint) (incl : Include) (gs : GlyphSet) (modified : List String) (gs' : GlyphSet) : Bool :=
  holdsFootprint fp incl gs gs' && holdsReport gs gs' modified

/-- source font: with a separate glyph set nothing of the font may change (`srcChanged` lists what did) -/
def holdsSource (separate : Bool) (srcChanged : List String) : Bool := !separate || srcChanged.isEmpty

/-- an observed invocation, as far as statelessness is concerned -/
structure Outcome where
  err : Option String
  modified : List String
  gs : GlyphSet
  deriving DecidableEq

/-- statelessness: the i-th invocation of a reused object gave what a new object gives on the same input -/
def holdsStateless (reused fresh : List Outcome) : Bool := reused == fresh

/-- include / exclude: what `BaseFilter.__init__` must build -/
def holdsInit (inc : Option (List String)) (exc : Option (List String)) (probe : List String)
    (res : Except Err (List Bool)) : Bool :=
  match inc, exc, res with
  | some _, some _, .error e => e == .valueError
  | some _, some _, .ok _ => false
  | _, _, .error _ => false
  | some l, none, .ok r => r == probe.map (fun n => l.contains n)
  | none, some l, .ok r => r == probe.map (fun n => !l.contains n)
  | none, none, .ok r => r == probe.map (fun _ => true)

/-! interpolatable variants: one glyph set per master, one shared returned set -/

/-- included in some master: `any(include(g) for g in glyphs)` -/
def includedAnyB (incl : Include) (gss : List GlyphSet) (n : String) : Bool :=
  gss.any (fun gs => includedB incl gs n)

def maxLenS (gss : List GlyphSet) : Nat := gss.foldl (fun m gs => max m gs.length) 0

/-- footprint in master `gs` of a multi-master call -/
def allowedIB (fp : Footprint) (incl : Include) (gss : List GlyphSet) (gs : GlyphSet) (n : String) : Bool :=
  match fp with
  | .self => includedAnyB incl gss n
  | .reach => (gss.flatMap keys).any (fun m => includedAnyB incl gss m && reachB gs (maxLenS gss + 1) m n)
  | .selfOr l => includedAnyB incl gss n || l.contains n

/-- one successful invocation of an interpolatable filter on zipped masters -/
def holdsICall (fp : Footprint) (incl : Include) (gss : List GlyphSet) (modified : List String)
    (gss' : List GlyphSet) : Bool :=
  gss.length == gss'.length &&
  (List.zip gss gss').all (fun p =>
    (changedNames p.1 p.2).all (fun n => allowedIB fp incl gss p.1 n && modified.contains n))

structure IOutcome where
  err : Option String
  modified : List String
  gss : List GlyphSet
  deriving DecidableEq

def holdsIStateless (reused fresh : List IOutcome) : Bool := reused == fresh

def fpOfI : IKind → Footprint
  | .propagate _ => .reach
  | .skipExport l => .selfOr l
  | _ => .self

def fpOf : Kind → Footprint
  | .propagate _ => .reach
  | .skipExport l => .selfOr l
  | _ => .self

end Ufo2ft.C14
