import Ufo2ftModel.Spec.C09
import Ufo2ftModel.Model.C09Overflow
/-!
C09, "decisions to decompose a glyph are taken jointly across all masters" for the decision that is taken LAST: the glyph
pen's per-master decomposition of a glyph that has a component entry beyond the F2Dot14 range.
-/
namespace Ufo2ft.C09
open Ufo2ft

/-- the pen's decision for the real glyphs called `n`, one per master that has it -/
def penDecisionsOf (ms : Masters) (n : String) : List Bool :=
  ((glyphsNamed ms n).filter (fun g => !isSentinel g)).map penDecomposes

/-- **the compile-time decomposition is joint**: masters that agree on component lists hand glyph sets to the outline
    compiler in which every glyph is decomposed by the glyph pen in all masters or in none -/
def holdsPenJoint (src out : Masters) : Bool :=
  !compCompatible src || (allNames out).all (fun n => allEq (penDecisionsOf out n))

end Ufo2ft.C09
