import Ufo2ftModel.Model.C19
/-!
Property C19 as decidable predicates on (input, observed output).

"An instance generated at a master's location reproduces that master (rounded when geometry rounding is on); at any
other location every coordinate, advance and kerning value equals the variation-model interpolation of the masters;
the instance has exactly the default source's glyph set; rule substitutions swap outlines, widths, anchors and
component, kerning and group references of two glyphs but not their code points; generating instances never alters
the sources."

The predicates speak about numbers and names only:
* `flat g` lists every number of a glyph in a fixed order, `shapeOf g` is everything else (segment types, component
  bases, anchor names);  "blend" = every number is the weighted sum of the masters' corresponding numbers;
* `swapRef` is the substitution written as a renaming `σ = (a b)`: glyph `n` of the new font has the outline, width
  and anchors of glyph `σ n` of the old one, every reference (component base, kerning key, group member) is mapped
  through `σ`, and code points (and the vertical advance, which the code leaves alone) stay with the name.
-/
namespace Ufo2ft.C19

/-! ### glyph numbers and shape -/

def flatPts (c : List Pt) : List Q := c.flatMap (fun p => [p.x, p.y])
def flatComp (c : Comp) : List Q := [c.xx, c.xy, c.yx, c.yy, c.dx, c.dy]
def flatAnchor (a : Anchor) : List Q := [a.x, a.y]

/-- every number of the glyph: advance width, height, point coordinates, component matrices, anchor positions -/
def flat (g : MGlyph) : List Q :=
  [g.width, g.height] ++ (g.contours.flatMap flatPts ++ (g.comps.flatMap flatComp ++ g.anchors.flatMap flatAnchor))

/-- which of those numbers geometry rounding rounds: all but the component 2x2 -/
def roundMask (g : MGlyph) : List Bool :=
  [true, true] ++ (g.contours.flatMap (fun c => c.flatMap (fun _ => [true, true])) ++
    (g.comps.flatMap (fun _ => [false, false, false, false, true, true]) ++ g.anchors.flatMap (fun _ => [true, true])))

structure Shape where
  contours : List (List (Option String))
  comps : List String
  anchors : List String
  deriving DecidableEq, Repr

def shapeOf (g : MGlyph) : Shape :=
  ⟨g.contours.map (fun c => c.map (·.seg)), g.comps.map (·.base), g.anchors.map (·.name)⟩

def close (tol a b : Q) : Bool := decide (absQ (a - b) ≤ tol)

/-- `r` has the shape of `m0` and the numbers `expected` (up to `tol`; `tol = 0` in the exact stream) -/
def holdsNums (tol : Q) (m0 : MGlyph) (expected : List Q) (r : MGlyph) : Bool :=
  shapeOf r == shapeOf m0 && (flat r).length == expected.length &&
  ((flat r).zip expected).all (fun p => close tol p.1 p.2)

/-- weighted sum of the `j`-th numbers of the masters -/
def wsumAt (ws : List Q) (vs : List (List Q)) (j : Nat) : Q :=
  ((ws.zip vs).map (fun p => p.1 * p.2.getD j 0)).sum

/-- the blend of number lists: entry `j` is `Σ wᵢ · vᵢ[j]` -/
def blendNums (n : Nat) (ws : List Q) (vs : List (List Q)) : List Q :=
  (List.range n).map (wsumAt ws vs)

def applyRound (round : Bool) (mask : List Bool) (nums : List Q) : List Q :=
  if round then List.zipWith (fun b v => if b then rnd v else v) mask nums else nums

/-- masters that take part: weight zero means no role at all (not even for compatibility) -/
def contributing (ms : List α) (ws : List Q) : List (α × Q) := (ms.zip ws).filter (fun p => p.2 != 0)

/-- point-for-point compatible: same segment types, same component bases in order, same anchor names in order,
    and no anchor name used twice -/
def compatible (ms : List MGlyph) : Bool :=
  match ms with
  | [] => false
  | m0 :: rest => rest.all (fun m => shapeOf m == shapeOf m0) && decide ((m0.anchors.map (·.name)).Nodup)

def masterAt (items : List (Loc × α)) (nl : Loc) : Option α :=
  (items.find? (fun e => locKey e.1 == locKey nl)).map (·.2)

/-- **master / blend** for one glyph: at a master location the master itself (no arithmetic, no compatibility
    needed); elsewhere, for compatible masters, the weighted sum; rounded with `otRound` iff `round`.
    Incompatible masters off the master locations are outside the property (`true`). -/
def holdsGlyph (tol : Q) (round : Bool) (items : List (Loc × MGlyph)) (ws : List Q) (nl : Loc) (r : MGlyph) : Bool :=
  match masterAt items nl with
  | some m => holdsNums 0 m (applyRound round (roundMask m) (flat m)) r
  | none =>
    let cs := contributing (items.map (·.2)) ws
    match cs with
    | [] => true
    | (m0, _) :: _ =>
      if compatible (cs.map (·.1)) then
        -- (inexact stream only: a rounded number may fall on the other side of a tie)
        holdsNums (if round && 0 < tol then 1 else tol) m0 (applyRound round (roundMask m0)
          (blendNums (flat m0).length (cs.map (·.2)) (cs.map (fun c => flat c.1)))) r
      else true

/-! ### rule substitutions -/

/-- the renaming `(a b)` -/
def sigma (a b n : String) : String := if n == a then b else if n == b then a else n

/-- reference semantics of one substitution -/
def swapRef (f : Font) (a b : String) : Font :=
  { glyphs := f.glyphs.map (fun g =>
      match f.get? (sigma a b g.name) with
      | none => g
      | some s => { g with g := { width := s.g.width, height := g.g.height, contours := s.g.contours,
                                  comps := s.g.comps.map (fun c => { c with base := sigma a b c.base }),
                                  anchors := s.g.anchors } })
    kerning := f.kerning.map (fun e => ((sigma a b e.1.1, sigma a b e.1.2), e.2))
    groups := f.groups.map (fun g => (g.1, g.2.map (sigma a b))) }

def condHolds (loc : Loc) (c : Cond) : Bool :=
  match alookup c.name loc with
  | none => false
  | some v => c.minimum.all (fun m => decide (m ≤ v)) && c.maximum.all (fun m => decide (v ≤ m))

/-- a rule applies when one of its condition sets holds entirely -/
def ruleActive (loc : Loc) (r : Rule) : Bool := r.condSets.any (fun cs => cs.all (condHolds loc))

def rulesKnown (loc : Loc) (rules : List Rule) : Bool :=
  rules.all (fun r => r.condSets.all (fun cs => cs.all (fun c => (alookup c.name loc).isSome)))

/-- substitutions in force at a design location, in rule order: those whose first glyph exists -/
def specSwaps (rules : List Rule) (loc : Loc) (names : List String) : List (String × String) :=
  ((rules.filter (ruleActive loc)).flatMap (fun r => r.subs.filter (fun s => names.contains s.1))).filter
    (fun s => s.1 != s.2)

/-- undo a list of substitutions (each one is its own inverse) -/
def unswap (f : Font) (swaps : List (String × String)) : Font :=
  swaps.reverse.foldl (fun f s => swapRef f s.1 s.2) f

/-! ### kerning -/

def isNearestInt (v r : Q) : Bool := r.den == 1 && decide (absQ (r - v) ≤ 1/2)

def kernValueOk (tol : Q) (round : Bool) (expected v : Q) : Bool :=
  if round then (isNearestInt expected v || (decide (0 < tol) && decide (absQ (v - expected) ≤ 1/2 + tol)))
  else close tol v expected

/-- the blend of a pair: weighted sum of the masters' values for that pair (a master that does not store the pair
    contributes what its kerning lookup gives: the value through its groups, else 0) -/
def kernExpected (gm : GroupMaps) (cs : List (KDict × Q)) (k : Pair) : Q :=
  (cs.map (fun c => c.2 * kget gm c.1 k)).sum

def sameKeys (cs : List KDict) : Bool :=
  match cs with
  | [] => true
  | k0 :: rest => rest.all (fun k => (k.map (·.1)).isPerm (k0.map (·.1)))

/-- **kerning**: at a master location exactly the master's pairs and values (zero pairs included); elsewhere, when all
    contributing masters store the same pairs, every stored pair carries the blend, nothing else is stored, and only
    zero-valued pairs may be missing.  (Masters storing different pairs: fontMath's group fallbacks make the sum
    order-dependent; outside the property, `true`.) -/
def holdsKern (tol : Q) (round : Bool) (gm : GroupMaps) (items : List (Loc × KDict)) (ws : List Q) (nl : Loc)
    (obs : KDict) : Bool :=
  decide ((obs.map (·.1)).Nodup) &&
  match masterAt items nl with
  | some m =>
    (obs.map (·.1)).isPerm (m.map (·.1)) &&
    obs.all (fun e => match alookup e.1 m with | some v => kernValueOk 0 round v e.2 | none => false)
  | none =>
    let cs := contributing (items.map (·.2)) ws
    if sameKeys (cs.map (·.1)) then
      match cs with
      | [] => true
      | (k0, _) :: _ =>
        obs.all (fun e => (k0.map (·.1)).contains e.1 && kernValueOk tol round (kernExpected gm cs e.1) e.2) &&
        k0.all (fun e => (obs.map (·.1)).contains e.1 || close tol (kernExpected gm cs e.1) 0)
    else true

/-! ### font info (six numeric attributes) and OS/2 classes from the axes -/

def infoExpected (cs : List (MInfo × Q)) (j : Nat) : Option (Option Q) :=
  let vals := cs.map (fun c => (c.1.getD j none, c.2))
  if vals.all (fun v => v.1.isSome) then some (some ((vals.map (fun v => v.2 * v.1.getD 0)).sum))
  else if vals.all (fun v => v.1.isNone) then some none
  else none      -- attribute set in some masters only: outside the property

def infoAttrOk (tol : Q) (round : Bool) (j : Nat) (expected obs : Option Q) : Bool :=
  match expected, obs with
  | none, none => true
  | some e, some o =>
    let e := if round && j != 5 then rnd e else e
    let e := if j == 0 && e < 0 then 0 else e
    close (if round && j != 5 && 0 < tol then 1 else tol) o e
  | _, _ => false

def holdsInfo (tol : Q) (round : Bool) (axes : List Axis) (items : List (Loc × MInfo)) (ws : List Q) (nl location : Loc)
    (obs : InfoOut) : Bool :=
  let userVal (tag : String) : Option Q :=
    ((axes.filter (fun a => a.tag == tag)).getLast?).map (fun a => a.mapBackward ((alookup a.name location).getD 0))
  let clamp (lo hi v : Q) : Q := if v < lo then lo else if hi < v then hi else v
  obs.weightClass == (userVal "wght").map (fun v => otRound (clamp 1 1000 v)) &&
  obs.widthClass == (userVal "wdth").map (fun v => otRound (piecewiseLinearMap (clamp 50 200 v) wdthTable)) &&
  obs.attrs.length == 6 &&
  (List.range 6).all (fun j =>
    let slnt := if j == 5 then (userVal "slnt").map (clamp (-90) 90) else none
    let fallback (e : Option Q) : Option Q := match e with | none => slnt | some v => some v
    match masterAt items nl with
    | some m => infoAttrOk tol round j (fallback (m.getD j none)) (obs.attrs.getD j none)
    | none =>
      match infoExpected (contributing (items.map (·.2)) ws) j with
      | none => true
      | some e => infoAttrOk tol round j (fallback e) (obs.attrs.getD j none))

/-! ### which sources are the masters of a glyph (declarative; the ORDER of the sources plays no role) -/

/-- the glyph `name` of a source layer, if it has one -/
def srcGlyph (s : Source) (name : String) : Option MGlyph :=
  (s.glyphs.find? (fun g => g.name == name)).map (·.g)

/-- the default source has the glyph and it is empty there (no contours, no components: `space`, anchor-only glyphs) -/
def defaultGlyphEmpty (ds : DS) (di : Nat) (name : String) : Bool :=
  match ds.sources[di]? with
  | none => false
  | some s => match srcGlyph s name with
    | none => false
    | some g => g.contours.isEmpty && g.comps.isEmpty

/-- the masters of glyph `name`, in designspace order: every source that has the glyph; only when the default source's
    glyph is NOT empty, sources where the glyph is empty are left out.  A source's membership depends on its own glyph
    and on the default source's glyph - never on whether it is listed before or after the default source. -/
def glyphMastersRef (ds : DS) (di : Nat) (name : String) : List (Loc × MGlyph) :=
  ds.sources.filterMap (fun s =>
    (srcGlyph s name).bind (fun g =>
      if defaultGlyphEmpty ds di name || !(g.contours.isEmpty && g.comps.isEmpty) then some (nloc ds s.loc, g) else none))

/-! ### which inputs must be accepted / must be rejected -/

def uniqueLocs (locs : List Loc) : Bool := decide ((locs.map locKey).Nodup)
def hasOrigin (locs : List Loc) : Bool := locs.any (fun l => l.all (fun e => e.2 == 0))

/-- a glyph certainly instantiates: distinct master locations, a master at the origin, and either the location is
    a master location or the contributing masters are compatible -/
def glyphMust (items : List (Loc × MGlyph)) (ws : List Q) (nl : Loc) : Bool :=
  uniqueLocs (items.map (·.1)) && hasOrigin (items.map (·.1)) &&
  ((masterAt items nl).isSome ||
    (let cs := contributing (items.map (·.2)) ws; !cs.isEmpty && compatible (cs.map (·.1))))

/-- a glyph certainly fails: two masters at one location, or none at the origin -/
def glyphFails (items : List (Loc × MGlyph)) : Bool :=
  !(uniqueLocs (items.map (·.1)) && hasOrigin (items.map (·.1)))

structure Ctx where
  ds : DS
  round : Bool
  inst : Instance
  di : Nat
  dsrc : Source
  location : Loc
  nl : Loc

def mkCtx (ds : DS) (round : Bool) (inst : Instance) : Option Ctx :=
  match findDefault ds with
  | none => none
  | some di =>
    match ds.sources[di]? with
    | none => none
    | some dsrc =>
      let location := dictMerge (defaultDesignLoc ds) inst.loc
      some ⟨ds, round, inst, di, dsrc, location, nloc ds location⟩

/-- the masters the property speaks about: the declarative `glyphMastersRef` (`Props.C19_collect_ref`: the model's
    `collectGlyphMasters` computes exactly this list) -/
def Ctx.glyphItems (c : Ctx) (n : String) := glyphMastersRef c.ds c.di n
def Ctx.ws (c : Ctx) (locs : List Loc) := scalarsFor c.ds locs c.nl
def Ctx.names (c : Ctx) : List String := c.dsrc.glyphs.map (·.name)
def Ctx.swaps (c : Ctx) := specSwaps c.ds.rules c.location c.names
def Ctx.fontLocs (c : Ctx) : List Loc := (collectInfoMasters c.ds c.di).map (·.1)

/-- the instance must be produced -/
def mustSucceed (c : Ctx) : Bool :=
  boundsOk (axisBounds c.ds.axes) && uniqueLocs c.fontLocs && hasOrigin c.fontLocs &&
  c.dsrc.glyphs.all (fun d => c.ds.skip.contains d.name ||
    glyphMust (c.glyphItems d.name) (c.ws ((c.glyphItems d.name).map (·.1))) c.nl) &&
  rulesKnown c.location c.ds.rules &&
  c.swaps.all (fun s => c.names.contains s.2)

/-- the instance must be refused -/
def mustFail (c : Ctx) : Bool :=
  !uniqueLocs c.fontLocs ||
  c.dsrc.glyphs.any (fun d => !c.ds.skip.contains d.name && glyphFails (c.glyphItems d.name)) ||
  (rulesKnown c.location c.ds.rules &&
    c.dsrc.glyphs.all (fun d => c.ds.skip.contains d.name ||
      glyphMust (c.glyphItems d.name) (c.ws ((c.glyphItems d.name).map (·.1))) c.nl) &&
    c.swaps.any (fun s => !c.names.contains s.2))

/-! ### the instance as a whole -/

/-- **glyph set**: exactly the default source's glyph names -/
def holdsGlyphSet (c : Ctx) (f : Font) : Bool :=
  (f.glyphs.map (·.name)).isPerm c.names && decide ((f.glyphs.map (·.name)).Nodup)

/-- **code points** stay with the glyph name whatever the substitutions (a glyph that could not be instantiated and
    is not exported is left empty, without code points) -/
def holdsUnicodes (c : Ctx) (f : Font) : Bool :=
  c.dsrc.glyphs.all (fun d =>
    match f.get? d.name with
    | none => false
    | some g => g.unicodes == d.unicodes || (c.ds.skip.contains d.name && g.unicodes == []))

/-- **geometry** of the font before substitutions -/
def holdsGeometry (tol : Q) (c : Ctx) (pre : Font) : Bool :=
  c.dsrc.glyphs.all (fun d =>
    match pre.get? d.name with
    | none => false
    | some g =>
      let items := c.glyphItems d.name
      let ws := c.ws (items.map (·.1))
      if glyphMust items ws c.nl then holdsGlyph tol c.round items ws c.nl g.g
      else if c.ds.skip.contains d.name then
        -- either instantiated anyway (incompatible but summable) or left empty
        (!glyphFails items || g.g == MGlyph.empty)
      else true)

def holdsGroups (c : Ctx) (pre : Font) : Bool :=
  pre.groups.isPerm c.dsrc.groups

/-- everything C19 says about one observed instance -/
def holdsInst (tol : Q) (ds : DS) (round : Bool) (inst : Instance) (obs : Except Err Output) : Bool :=
  match mkCtx ds round inst with
  | none => (match obs with | .error _ => true | .ok _ => false)
  | some c =>
    match obs with
    | .error _ => !mustSucceed c
    | .ok o =>
      !mustFail c && boundsOk (axisBounds ds.axes) &&
      holdsGlyphSet c o.font && holdsUnicodes c o.font &&
      (let pre := unswap o.font c.swaps
       let kitems := collectKerningMasters ds c.di
       let iitems := collectInfoMasters ds c.di
       holdsGeometry tol c pre &&
       holdsKern tol round (groupMaps c.dsrc.groups) kitems (c.ws (kitems.map (·.1))) c.nl pre.kerning &&
       holdsGroups c pre &&
       holdsInfo tol round ds.axes iitems (c.ws (iitems.map (·.1))) c.nl c.location o.info) &&
      o.libLocation == c.location && o.libSkip == ds.skip

/-! ### `swap_glyph_names` alone (function level) -/

/-- once: the reference substitution; twice: the original font; code points never move -/
def holdsSwap (f : Font) (a b : String) (once twice : Except Err Font) : Bool :=
  if f.has a && f.has b then
    match once, twice with
    | .ok f1, .ok f2 =>
      f1.glyphs == (swapRef f a b).glyphs && f1.kerning.isPerm (swapRef f a b).kerning &&
      f1.groups == (swapRef f a b).groups &&
      f2.glyphs == f.glyphs && f2.kerning.isPerm f.kerning && f2.groups == f.groups &&
      f1.glyphs.map (fun g => (g.name, g.unicodes)) == f.glyphs.map (fun g => (g.name, g.unicodes))
    | _, _ => false
  else
    match once with
    | .error _ => true
    | .ok _ => false

/-! ### one-axis master scalars (function level) -/

/-- weights sum to one; at a master position the weights are the unit vector of that master; every weight is
    within `tol` of the piecewise-linear hat of `scalars1` -/
def holdsScalars (tol : Q) (ps : List Q) (v : Q) (obs : List Q) : Bool :=
  obs.length == ps.length && close (tol * (ps.length : Q)) obs.sum 1 &&
  ((ps.zip obs).all (fun p => if ps.contains v then close tol p.2 (if p.1 == v then 1 else 0) else true)) &&
  ((obs.zip (scalars1 ps v)).all (fun p => close tol p.1 p.2))

end Ufo2ft.C19
