import Ufo2ftModel.Spec.C13
/-! C13, TrueType side: the advance a rasteriser uses for a composite glyph is the advance of the component flagged
    USE_MY_METRICS (if any), not the glyph's own `hmtx` entry.  "Every remaining glyph keeps the same advance as when nothing
    is skipped" is therefore stated for both.  Declarative; evaluated on OBSERVED `glyf` / `hmtx` data of two compiled fonts. -/
namespace Ufo2ft.C13
open Ufo2ft

/-- a glyph of a compiled TrueType font as observed: name, `hmtx` advance, and for composites the components in `glyf` order
    with their USE_MY_METRICS flag -/
structure TTObs where
  name : String
  adv : Int
  comps : Option (List (String × Bool))
deriving Repr, BEq

def TTObs.find? (font : List TTObs) (n : String) : Option TTObs := font.find? (fun g => g.name == n)

/-- the advance a TrueType rasteriser gives glyph `g` of `font`: that of the first component flagged USE_MY_METRICS
    (`none` if that component is not in the font), else the glyph's own -/
def effAdv (font : List TTObs) (g : TTObs) : Option Int :=
  match (g.comps.getD []).find? (fun k => k.2) with
  | some k => (TTObs.find? font k.1).map (·.adv)
  | none => some g.adv

/-- HYPOTHESIS on the source: the hinting data of glyph `f` is consistent when, with NOTHING skipped, the advance a rasteriser
    uses is the glyph's own `hmtx` advance (the component flagged USE_MY_METRICS has the advance of the composite).  When the
    source itself asks for the metrics of a component of another advance, "the" advance of the glyph is ambiguous already
    without a skip list, and ufo2ft's documented fallback (`autoUseMyMetrics` when the number of components differs from the
    UFO's) may legitimately resolve it the other way: no demand on the effective advance is made for such a glyph. -/
def consistentTT (full : List TTObs) (f : TTObs) : Bool := effAdv full f == some f.adv

/-- remaining glyphs that are new, or whose `hmtx` advance differs between the font built without (`full`) and with (`cut`)
    the skip list, or - for glyphs with consistent hinting data - whose effective advance differs -/
def ttWrong (full cut : List TTObs) : List String :=
  (cut.filter (fun g => match TTObs.find? full g.name with
    | none => true
    | some f => !(g.adv == f.adv && (!consistentTT full f || effAdv cut g == effAdv full f)))).map (·.name)

/-- skipped glyphs are gone, the order of the others is kept, and every remaining glyph keeps its advance - the `hmtx` one
    and (consistent hinting data) the one a rasteriser uses -/
def holdsTT (skip : List String) (full cut : List TTObs) : Bool :=
  holdsOrder skip (full.map (·.name)) (cut.map (·.name)) && (ttWrong full cut).isEmpty

end Ufo2ft.C13
