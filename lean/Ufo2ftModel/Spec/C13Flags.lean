import Ufo2ftModel.Spec.C13
/-! C13, TrueType side: the advance a rasteriser uses for a composite glyph is the advance of the component flagged
    USE_MY_METRICS (if any), not the glyph's own `hmtx` entry.  "Every remaining glyph keeps the same advance as when nothing
    is skipped" is therefore stated for both.  Declarative; evaluated on OBSERVED `glyf` / `hmtx` data of two compiled fonts. -/
namespace Ufo2ft.C13
open Ufo2ft

/-- a glyph of a compiled TrueType font as observed: name, `hmtx` advance, and for composites the components in `glyf` order
    with their USE_MY_METRICS flag -/
structure TTObs where
  name : String
  adv : Int
  comps : Option (List (String × Bool))
deriving Repr, BEq

def TTObs.find? (font : List TTObs) (n : String) : Option TTObs := font.find? (fun g => g.name == n)

/-- the advance a TrueType rasteriser gives glyph `g` of `font`: that of the first component flagged USE_MY_METRICS
    (`none` if that component is not in the font), else the glyph's own -/
def effAdv (font : List TTObs) (g : TTObs) : Option Int :=
  match (g.comps.getD []).find? (fun k => k.2) with
  | some k => (TTObs.find? font k.1).map (·.adv)
  | none => some g.adv

/-- remaining glyphs whose `hmtx` advance or effective advance differs between the font built without (`full`) and with
    (`cut`) the skip list, or that are new -/
def ttWrong (full cut : List TTObs) : List String :=
  (cut.filter (fun g => match TTObs.find? full g.name with
    | none => true
    | some f => !(g.adv == f.adv && effAdv cut g == effAdv full f && (effAdv cut g).isSome))).map (·.name)

/-- skipped glyphs are gone, the order of the others is kept, and every remaining glyph keeps its advance — the `hmtx` one
    and the one a rasteriser uses -/
def holdsTT (skip : List String) (full cut : List TTObs) : Bool :=
  holdsOrder skip (full.map (·.name)) (cut.map (·.name)) && (ttWrong full cut).isEmpty

end Ufo2ft.C13
