import Ufo2ftModel.Model.C01
import Ufo2ftModel.Spec.Render
/-! C01, declaratively: the compiled outline is the source outline with components resolved by ONE composed matrix per
    leaf (reversed iff the composed determinant is negative), converted to drawing commands, every coordinate rounded. -/
namespace Ufo2ft.C01
open Ufo2ft

/-- the specified outline: resolve with the spec renderer, then convert and round -/
def specOutline (tol : Q) (gs : GlyphSet) (g : Glyph) : Except Err (List Op) :=
  contoursOps tol (renderGlyph gs g)

/-- "rounded to the nearest integer, halves up; with a tolerance, moved by no more than the tolerance" -/
def roundedOk (tol : Q) (v r : Q) : Bool :=
  if tol ≥ 1/2 then r == (otRound v : Q) else (r == v || (r == (otRound v : Q) && absQ (r - v) ≤ tol))

/-- split a command list into its contours (each ends with closePath) -/
def splitContours : List Op → List Op → List (List Op)
  | [], acc => if acc.isEmpty then [] else [acc]
  | .closePath :: ops, acc => (acc ++ [.closePath]) :: splitContours ops []
  | o :: ops, acc => splitContours ops (acc ++ [o])

def opPts : Op → List P
  | .moveTo p => [p] | .lineTo p => [p] | .curveTo a b c => [a, b, c] | .closePath => []

/-- direction-blind key of one drawn contour: the sorted SET of its on- and off-curve coordinates (which end of the closing
    segment is spelled out depends on the direction, so multiplicities are not compared) -/
def opsKey (ops : List Op) : List P := ((ops.flatMap opPts).mergeSort ptLe).eraseDups

/-- `ordered = true`: same contours in the same order (nothing lost, duplicated or reordered);
    `ordered = false` (a skip-export list spliced components in): the same multiset of contours -/
def holdsOutline (ordered : Bool) (tol : Q) (gs : GlyphSet) (g : Glyph) (obs : List Op) : Bool :=
  match specOutline tol gs g with
  | .ok ops =>
    if !nonsingularFrom (gs.length + 1) gs g then
      -- a singular component (det = 0) collapses the outline to a line or a point: contour direction carries no meaning
      -- there (and depends on the traversal order of the code); only the point multisets are compared
      ((splitContours obs []).map opsKey).isPerm ((splitContours ops []).map opsKey)
    else if ordered then obs == ops else (splitContours obs []).isPerm (splitContours ops [])
  | .error _ => false

/-- "every exported glyph": a glyph of the UFO is exported unless the caller's `skipExportGlyphs` argument names it; the UFO's
    `public.skipExportGlyphs` lib key counts only when NO argument was passed ("If the parameter is not passed in, the UFO's
    'public.skipExportGlyphs' lib key will be consulted") - an explicit empty argument exports everything -/
def isExported (arg : Option (List String)) (lib : List String) (n : String) : Bool :=
  match arg with
  | some a => !a.contains n
  | none => !lib.contains n

/-- the glyph names of the compiled font are exactly the exported glyphs of the UFO (plus a synthesised `.notdef`) -/
def holdsExported (arg : Option (List String)) (lib : List String) (src : List String) (font : List String) : Bool :=
  src.all (fun n => font.contains n == isExported arg lib n) &&
  font.all (fun n => src.contains n || n == ".notdef")

def holdsAdvance (g : Glyph) (obs : Int) : Bool := obs == otRound g.width && decide (0 ≤ obs)

end Ufo2ft.C01
