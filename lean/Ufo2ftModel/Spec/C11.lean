import Ufo2ftModel.Model.C11
/-!
Property C11 as decidable predicates on (input, observed output).

"The final names are unique, use the lib-supplied PostScript names where given (otherwise uniXXXX /
uXXXXX from code points, keeping suffixes and ligature parts), and contain only characters legal in
PostScript glyph names; renaming changes nothing but the names."
-/
namespace Ufo2ft.C11

/-! ### legality -/

/-- the characters ufo2ft lets through: `[0-9A-Za-z_.]` -/
def legalChar (c : Char) : Bool := c.isAlphanum || c == '_' || c == '.'

def legalName (n : Name) : Bool := n.all legalChar

/-- a name with every illegal character dropped, the other characters kept in order -/
def clean (n : Name) : Name := n.filter legalChar

/-! ### where a name comes from -/

/-- declarative string vocabulary (no recursion: `takeWhile`/`dropWhile`) used to state the rules of
    the automatic names in `Props/C11.lean` -/
def beforeLast (c : Char) (n : Name) : Name := ((n.reverse.dropWhile (· != c)).drop 1).reverse
def afterLast (c : Char) (n : Name) : Name := (n.reverse.takeWhile (· != c)).reverse
def beforeFirst (c : Char) (n : Name) : Name := n.takeWhile (· != c)
def afterFirst (c : Char) (n : Name) : Name := (n.dropWhile (· != c)).drop 1

/-- the name `public.postscriptNames` gives a glyph: its entry when there is a non-empty one, else the
    glyph's own name -/
def mappedName (m : List (Name × Name)) (g : Name) : Name :=
  match alookup g m with
  | some p => if p = [] then g else p
  | none => g

/-- value of one upper-case hex digit -/
def hexDigitVal (c : Char) : Nat :=
  if c.toNat ≤ 57 then c.toNat - 48 else c.toNat - 55

/-- read a hex numeral, most significant digit first -/
def hexValAux (a : Nat) : Name → Nat
  | [] => a
  | c :: cs => hexValAux (a * 16 + hexDigitVal c) cs

def hexVal (l : Name) : Nat := hexValAux 0 l

/-- the automatic name (no usable map).  It is the unique function satisfying the rules
    `auto_uni`, `auto_suffix`, `auto_liga_uni`, `auto_liga_join`, `auto_keep` proved in `Props/C11.lean`
    (first code point → uniXXXX/uXXXXX; `base.suffix` → auto(base).suffix; ligature of BMP glyphs →
    uniXXXXYYYY; other ligatures → auto(parts) joined with `_`; else unchanged). -/
def autoName (gs : GlyphSet) (g : Name) : Name := prodName gs (g.length + 1) g

/-- the production name before sanitising -/
def specProd (i : Input) (g : Name) : Name :=
  match i.psNames with
  | some m => if m = [] then autoName i.glyphSet g else mappedName m g
  | none => autoName i.glyphSet g

/-- the candidate: illegal characters dropped; longer than 63 → the cleaned original name instead -/
def specCand (i : Input) (g : Name) : Name :=
  let v := clean (specProd i g)
  if v.length > 63 then clean g else v

/-! ### uniqueness -/

/-- `out` is `c` followed by `.` and a decimal numeral -/
def isSuffixedOf (c out : Name) : Bool :=
  (c ++ ['.']).isPrefixOf out &&
    (let d := out.drop (c.length + 1); !d.isEmpty && d.all Char.isDigit)

/-- what may happen to candidate `c` when `prev` are the names already given out: it is used as is
    exactly when it is still free; otherwise it gets a numeric suffix and the result is free -/
def okUnique (prev : List Name) (c out : Name) : Bool :=
  if prev.contains c then isSuffixedOf c out && !prev.contains out else out == c

/-- `okUnique` along the glyph order -/
def okAll : List Name → List Name → List Name → Bool
  | _, [], [] => true
  | prev, c :: cs, o :: os => okUnique prev c o && okAll (o :: prev) cs os
  | _, _, _ => false

/-- the glyphs that get renamed: those the post-processor has source information for, except '.notdef' -/
def covered (i : Input) (out : List Name) : List (Name × Name) :=
  (i.order.zip out).filter (fun p => renames i p.1)

/-- the glyphs that keep their name: the post-processor has no source information for them, or the glyph is
    '.notdef' (whose name the OpenType/CFF formats fix) -/
def unrenamed (i : Input) : List Name := i.order.filter (fun n => !renames i n)

/-- per-glyph part of the property for a renamed font, relative to the names `taken` from the start:
    same number of glyphs in the same positions; glyphs without source information and '.notdef' keep their name;
    every other glyph gets its candidate, made unique by a numeric suffix only when needed (a candidate
    that is `taken` or was given out earlier needs one); all those names are legal -/
def holdsRenamedFrom (taken : List Name) (i : Input) (out : List Name) : Bool :=
  out.length == i.order.length &&
  (i.order.zip out).all (fun p => renames i p.1 || p.2 == p.1) &&
  okAll taken ((covered i out).map (fun p => specCand i p.1)) ((covered i out).map (·.2)) &&
  (covered i out).all (fun p => legalName p.2)

/-- the property: the names of the glyphs that are not renamed count as taken from the start -/
def holdsRenamed (i : Input) (out : List Name) : Bool := holdsRenamedFrom (unrenamed i) i out

/-- the names of the font are pairwise distinct -/
def holdsDistinct (out : List Name) : Bool := decide out.Nodup

/-- every glyph of the font is in the glyph set handed to the post-processor -/
def covers (i : Input) : Bool := i.order.all (inGs i.glyphSet)

/-! ### decision table -/

/-- documented behaviour: an explicit argument wins; otherwise the ufo2ft lib key, otherwise "the map
    is present and Glyphs' legacy key does not forbid it"; dropping glyph names (keepGlyphNames false,
    no explicit argument) switches renaming off -/
def specRename (s : Switches) : Bool :=
  match s.arg with
  | some b => b
  | none =>
    s.libKeep != some false &&
      (match s.libUse with
       | some b => b
       | none => s.libDont != some true && s.hasPs)

/-- 'post' format (×10): CFF 1 fonts are left alone; 3.0 when names are dropped; 2.0 otherwise -/
def specPostFormat (s : Switches) (before : Nat) : Nat :=
  if s.cff1 then before
  else if s.arg.isNone && s.libKeep == some false then 30 else 20

def holdsExtra (order : List Name) (fmt : Nat) (extra : Option (List Name)) : Bool :=
  if fmt == 20 then extra == some (order.filter (fun g => !isStandard g)) else extra == none

/-- the naming part of the property for one successful `process_glyph_names` call, on observed values -/
def holdsOutput (s : Switches) (i : Input) (before : Nat) (o : Output) : Bool :=
  (if specRename s then holdsRenamed i o.order && holdsDistinct o.order else o.order == i.order) &&
  o.postFormat == specPostFormat s before &&
  holdsExtra o.order o.postFormat o.extraNames

/-- the inputs the code accepts: renaming serialises the SOURCE names first (reload), and fontTools
    can only write Latin-1 names -/
def accepts (s : Switches) (i : Input) : Bool := !specRename s || i.order.all latin1Name

/-- an error is in order only for inputs the code cannot accept; a result must satisfy the property -/
def holdsProcess (s : Switches) (i : Input) (before : Nat) (o : Except Err Output) : Bool :=
  match o with
  | .error _ => !accepts s i
  | .ok o => holdsOutput s i before o

/-- "changes nothing else": `diff` = tags of the tables whose bytes differ between the build with and
    the build without production names; only the carriers of glyph names may be listed -/
def holdsTables (diff : List String) : Bool := diff.all (fun t => t == "post" || t == "CFF ")

/-- what fontTools can write (an assumption about fontTools, measured): Latin-1 names, and a 'CFF '
    table whose first glyph is called '.notdef' -/
def serialisable (cff1 : Bool) (order : List Name) : Bool :=
  order.all latin1Name && (!cff1 || order.head? == some ['.', 'n', 'o', 't', 'd', 'e', 'f'])

end Ufo2ft.C11
