import Ufo2ftModel.Spec.C05
/-! C05, application semantics: what an OpenType shaper does with the kerning program the writer emits
    (`Program`: the lookups with their rules, and the script / language registrations of the `kern` and `dist` features),
    for two ADJACENT glyphs `g1 g2` of a run of one script tag, default language.

    The reference is `harness/gpos.py: pair_adjust / lookups_for` run on the COMPILED font; the op "apply" of the driver ties
    this file to it on every generated font.  What is described here is therefore feaLib's way of laying rules out in PairPos
    subtables plus the OpenType rule "a lookup applies its first subtable that matches, then stops":

    * a lookup referenced by the feature(s) under the script tag is applied once, in LookupList (= emission) order;
      a tag without registration (or whose registration references only rule-less lookup blocks, which feaLib does not
      build) falls back to `DFLT`; the adjustments of different lookups ADD;
    * inside a lookup feaLib puts every glyph pair — a `pos g1 g2 v` rule, or one expanded from an `enum pos` rule — into
      PairPos format 1 subtables, which come first; the FIRST definition of a glyph pair wins;
    * the remaining rules (class × class) go to PairPos format 2 subtables: a rule joins the current subtable while its first
      class is equal to or disjoint from every first class of the subtable, and the same on the second side
      (`ClassDefBuilder.canAdd`); otherwise a new subtable is started;
    * a format 2 subtable matches as soon as `g1` is in its coverage (the union of its first classes) — the cell of
      (class of g1, class of g2) is applied even when it is empty (zero), and no later subtable is looked at.

    Assumption (stated, not modelled): lookup flags (IgnoreMarks / mark filtering set) only decide which glyphs BETWEEN the
    two glyphs are skipped; for an adjacent pair they do not change which rule applies.  (The writer never puts a mark glyph
    into a rule of an IgnoreMarks lookup, so the reference interpreter, which lets such a lookup skip pairs containing a mark,
    agrees: `C05_marks_never_in_base_lookup` in Props/C05Apply.lean.)

    Reach of the tie: under `wfKern` and `ctxOK` the class rules of one emitted lookup always fit ONE format-2 subtable
    (`bucketLookup_compat`), so generated fonts never exercise the subtable-break branch of `addClassRule` / the "covered but
    empty cell stops the lookup" rule across subtables; those two clauses follow feaLib's source (`ClassPairPosSubtableBuilder`,
    `ClassDefBuilder.canAdd`) and the OpenType rule, and are not observed. -/
namespace Ufo2ft.C05
open Ufo2ft

/-- the value record of the first glyph: (xAdvance, xPlacement).  Right-to-left rules are written `<v 0 v 0>`. -/
def Rule.record (r : Rule) : Q × Q := (r.value, if r.rtl then r.value else 0)

/-- the rule's two sides contain the two glyphs -/
def Rule.hits (r : Rule) (g1 g2 : String) : Bool := r.side1.contains g1 && r.side2.contains g2

/-- feaLib: a glyph-glyph rule, or an `enum` rule, becomes specific glyph pairs (format 1); anything else a class pair (format 2) -/
def Rule.specific (r : Rule) : Bool := r.enumerated || (!r.firstIsClass && !r.secondIsClass)

/-- one PairPos format 2 subtable while feaLib's `ClassPairPosSubtableBuilder` fills it -/
structure ClassSubtable where
  classes1 : List (List String)
  classes2 : List (List String)
  cells : List ((List String × List String) × (Q × Q))      -- dict (class1, class2) → record: a later entry overrides
  deriving Repr

/-- `ClassDefBuilder.canAdd`: the class is already there, or none of its glyphs is in any class -/
def canAdd (classes : List (List String)) (gc : List String) : Bool :=
  classes.contains gc || gc.all (fun g => !classes.any (fun c => c.contains g))

def ClassSubtable.single (r : Rule) : ClassSubtable := ⟨[r.side1], [r.side2], [((r.side1, r.side2), r.record)]⟩

def ClassSubtable.add (st : ClassSubtable) (r : Rule) : ClassSubtable :=
  ⟨st.classes1 ++ [r.side1], st.classes2 ++ [r.side2], st.cells ++ [((r.side1, r.side2), r.record)]⟩

/-- `ClassPairPosSubtableBuilder.addPair`: (finished subtables, current subtable) -/
def addClassRule (acc : List ClassSubtable × Option ClassSubtable) (r : Rule) : List ClassSubtable × Option ClassSubtable :=
  match acc.2 with
  | none => (acc.1, some (ClassSubtable.single r))
  | some st =>
    if canAdd st.classes1 r.side1 && canAdd st.classes2 r.side2 then (acc.1, some (st.add r))
    else (acc.1 ++ [st], some (ClassSubtable.single r))

def classSubtables (rules : List Rule) : List ClassSubtable :=
  let r := rules.foldl addClassRule ([], none)
  r.1 ++ r.2.toList

/-- a format 2 subtable on (g1, g2): `none` = g1 not covered (the next subtable is tried); otherwise the cell, possibly zero -/
def ClassSubtable.apply (st : ClassSubtable) (g1 g2 : String) : Option (Q × Q) :=
  match st.classes1.find? (fun c => c.contains g1) with
  | none => none
  | some c1 =>
    match st.classes2.find? (fun c => c.contains g2) with
    | none => some (0, 0)                                  -- second glyph in class 0: an empty cell, but the subtable matched
    | some c2 => some (((st.cells.filter (fun e => e.1 == (c1, c2))).getLast?.map (·.2)).getD (0, 0))

/-- one lookup on the adjacent pair (g1, g2) -/
def Lookup.apply (l : Lookup) (g1 g2 : String) : Q × Q :=
  match (l.rules.filter (·.specific)).find? (·.hits g1 g2) with
  | some r => r.record
  | none => ((classSubtables (l.rules.filter (fun r => !r.specific))).findSome? (·.apply g1 g2)).getD (0, 0)

/-- feaLib builds a named lookup only if it has a rule; a reference to a lookup block that holds nothing but a lookupflag
    (the writer can leave such a block behind, see `makeSplitScriptKernLookups`) adds nothing to the feature -/
def Program.built (p : Program) (name : String) : Bool := p.lookups.any (fun l => l.name == name && !l.rules.isEmpty)

/-- names of the lookups the `kern` and `dist` features reference under the script tag (default language; every other
    declared language references the same list).  A script / language whose feature references no built lookup is not
    written to the ScriptList at all (feaLib `makeTable`); a tag that is not in the ScriptList falls back to `DFLT`. -/
def activeLookups (p : Program) (tag : String) : List String :=
  let regs := (p.kern ++ p.dist).filter (fun r => r.lookups.any p.built)
  let own := regs.filter (fun r => r.script == tag)
  (if own.isEmpty then regs.filter (fun r => r.script == "DFLT") else own).flatMap (·.lookups)

def addQ2 (a b : Q × Q) : Q × Q := (a.1 + b.1, a.2 + b.2)

/-- the lookups with the given names, applied in LookupList (= emission) order, each once; their adjustments add -/
def applyNames (p : Program) (names : List String) (g1 g2 : String) : Q × Q :=
  ((p.lookups.filter (fun l => names.contains l.name)).map (·.apply g1 g2)).foldl addQ2 (0, 0)

/-- (xAdvance, xPlacement) adjustment of `g1` when followed by `g2` in a run of script tag `tag`, default language -/
def applyKern (p : Program) (tag g1 g2 : String) : Q × Q := applyNames p (activeLookups p tag) g1 g2

/-- the same in a font whose OTHER (hand-written) positioning features put the script tags `other` into the ScriptList: a
    shaper then uses that script's own language system - which holds no kern/dist unless the writer registered some - and
    does not fall back to `DFLT` (finding "declared-script-without-own-kerning", DESIGN section 5.2) -/
def applyKernIn (other : List String) (p : Program) (tag g1 g2 : String) : Q × Q :=
  if other.contains tag && ((p.kern ++ p.dist).filter (fun r => r.lookups.any p.built && r.script == tag)).isEmpty
  then (0, 0) else applyKern p tag g1 g2

/-! ### languages

    A shaper works with one LangSys record: that of (script tag, language) if the script has one for the language, else the
    script's default language system; a script tag that is not in the ScriptList falls back to `DFLT`.  What is in the
    ScriptList is decided by ALL positioning features of the font: `Declared` lists the script tags and the (tag, language)
    LangSys records that other (hand-written) features create and that hold no generated kern/dist feature. -/

structure Declared where
  tags : List String := []
  langSys : List (String × String) := []

/-- the registrations that make it into the compiled font (those referencing a built lookup) -/
def Program.regsBuilt (p : Program) : List Reg := (p.kern ++ p.dist).filter (fun r => r.lookups.any p.built)

/-- the lookups referenced under script tag `t` (which has registrations) for language `lang` -/
def langLookups (d : Declared) (p : Program) (t lang : String) : List String :=
  let own := p.regsBuilt.filter (fun r => r.script == t)
  let withLang := own.filter (fun r => r.languages.contains lang)
  if !withLang.isEmpty then withLang.flatMap (·.lookups)
  else if d.langSys.contains (t, lang) then []       -- the LangSys exists through another feature, without kerning
  else (own.filter (fun r => r.languages.contains "dflt")).flatMap (·.lookups)    -- undeclared language: default language system

def activeLookupsLang (d : Declared) (p : Program) (tag lang : String) : List String :=
  if (p.regsBuilt.filter (fun r => r.script == tag)).isEmpty then
    (if d.tags.contains tag then [] else langLookups d p "DFLT" lang)
  else langLookups d p tag lang

/-- (xAdvance, xPlacement) adjustment of `g1` when followed by `g2` in a run of script tag `tag` and language `lang`, in a
    font whose other features declare `d` -/
def applyKernLang (d : Declared) (p : Program) (tag lang g1 g2 : String) : Q × Q :=
  applyNames p (activeLookupsLang d p tag lang) g1 g2

/-! ### the hypotheses of the end-to-end theorem `C05_end_to_end` (Props/C05Apply.lean), as decidable predicates on the inputs -/

/-- the pair's two sides contain the two glyphs (Bool form of `Matches`) -/
def KPair.hits (p : KPair) (g1 g2 : String) : Bool := p.side1.glyphs.contains g1 && p.side2.glyphs.contains g2

/-- the generated kerning pair that determines what (g1, g2) gets: the first match of the `KerningPair`-sorted list
    (by `C05_ufo_some` it is the pair made from the kerning entry `lookupKerningValue` finds) -/
def detPair (gs : List String) (groups : List (String × List String)) (kerning : List (String × String × Q)) (q : Q)
    (g1 g2 : String) : Option KPair :=
  (sortPairs (getKerningPairs gs (getKerningGroups gs groups) q kerning)).find? (fun p => p.hits g1 g2)

/-- the pair lists `_makeKerningLookups` hands to `_makeSplitScriptKernLookups`: (pairs, ignoreMarks flag, name suffix) -/
def pairLists (pairs : List KPair) (marks : Option (List String)) (ignoreMarks : Bool) : List (List KPair × Bool × String) :=
  if ignoreMarks then
    (if (splitBaseAndMarkPairs pairs marks).1.isEmpty then [] else [((splitBaseAndMarkPairs pairs marks).1, true, "")]) ++
    (if (splitBaseAndMarkPairs pairs marks).2.isEmpty then [] else [((splitBaseAndMarkPairs pairs marks).2, false, "_marks")])
  else [(pairs, false, "")]

/-- the cells (after base/mark splitting and direction splitting) of ONE generated pair that contain (g1, g2) -/
def cellsOf (c : Ctx) (marks : Option (List String)) (ignoreMarks : Bool) (p : KPair) (g1 g2 : String) : List KPair :=
  (((pairLists [p] marks ignoreMarks).flatMap (fun l => l.1.flatMap (partitionByScript c))).map (·.2)).filter (fun sp => sp.hits g1 g2)

def Ctx.neutral (c : Ctx) (g : String) : Bool := c.resolved g == [COMMON]

/-- "g belongs to script s": s is one of its scripts, or the glyph is script-neutral (Common / Inherited / unknown) -/
def Ctx.inScript (c : Ctx) (s g : String) : Bool := c.neutral g || (c.resolved g).contains s

/-- `cellClean`: the pair is NOT in one of the three known bidi-cell shapes (DESIGN 5.2).  Only the cell of the DETERMINING
    generated pair that contains (g1, g2) is looked at:
    (i)  ambiguous-cell: that cell holds a bidi-R and a bidi-L glyph (the writer drops the whole cell);
    (ii) cell-L-no-placement: the script is right-to-left and the cell holds a bidi-L glyph (no x-placement is written);
    (iii) neutral-rtl-placement: the script is right-to-left and both glyphs are script-neutral (the Common lookup is written
          with left-to-right records). -/
def cellClean (c : Ctx) (gs : List String) (groups : List (String × List String)) (kerning : List (String × String × Q)) (q : Q)
    (marks : Option (List String)) (ignoreMarks : Bool) (s g1 g2 : String) : Bool :=
  match detPair gs groups kerning q g1 g2 with
  | none => true
  | some p =>
    let rtl := c.dir s == "RTL"
    (cellsOf c marks ignoreMarks p g1 g2).all (fun sp =>
      let hasR := sp.glyphs.any c.bidiR.contains
      let hasL := sp.glyphs.any c.bidiL.contains
      !(hasR && hasL) && !(rtl && hasL)) &&
    !(rtl && c.neutral g1 && c.neutral g2)

/-- the Unicode context is as fontTools supplies it: Common is the one script of direction "Auto", and all scripts of a glyph
    of the font are written in the same direction -/
def ctxOK (c : Ctx) (gs : List String) : Bool :=
  c.dir COMMON == "Auto" &&
  gs.all (fun g => (c.resolved g).all (fun s => (s == COMMON || c.dir s != "Auto") &&
    (c.resolved g).all (fun s' => c.dir s == c.dir s')))

/-- the shape of an ISO-15924 script code: one upper-case letter and three lower-case letters (`Latn`, `Arab`, `Zyyy` ...) -/
def isoCode (s : String) : Bool :=
  match s.toList with
  | [a, b, c, d] => a.isUpper && b.isLower && c.isLower && d.isLower
  | _ => false

/-- every script of every glyph of the font is named by an ISO-15924-shaped code (what `fontTools.unicodedata` returns) -/
def scriptsOK (c : Ctx) (gs : List String) : Bool := gs.all (fun g => (c.resolved g).all isoCode)

/-- distinct lookups get distinct names (`kern_<scripts>[_marks]`); a consequence of `wfKern` and `scriptsOK`
    (`namesOK_of_wf`), no longer a hypothesis -/
def namesOK (c : Ctx) (pairs : List KPair) (marks : Option (List String)) (ignoreMarks : Bool) : Bool :=
  decide ((pairLists pairs marks ignoreMarks).flatMap (fun l => (splitKerning c l.1).map (fun e => lookupName e.1 l.2.2))).Nodup

/-- the feature that carries the script's kerning is (re)written by the writer: `dist` for the dist-enabled scripts, `kern`
    otherwise — and `kern` (whose DFLT registration a shaper falls back to) when neither glyph is a letter of the script -/
def featOn (c : Ctx) (r : RegCtx) (todoKern todoDist : Bool) (s g1 g2 : String) : Bool :=
  if (c.resolved g1).contains s || (c.resolved g2).contains s then (if r.dist.contains s then todoDist else todoKern)
  else todoKern

/-- all hypotheses of `C05_end_to_end` for (script s, tag, g1, g2) -/
def e2eHyp (c : Ctx) (r : RegCtx) (gs : List String) (groups : List (String × List String)) (kerning : List (String × String × Q))
    (q : Q) (marks : Option (List String)) (ignoreMarks todoKern todoDist : Bool) (s tag g1 g2 : String) : Bool :=
  wfKern gs groups kerning && ctxOK c gs && gs.contains g1 && gs.contains g2 &&
  !DFLT_SCRIPTS.contains s && ((alookup s r.otTags).getD []).contains tag &&
  c.inScript s g1 && c.inScript s g2 && featOn c r todoKern todoDist s g1 g2 &&
  scriptsOK c gs &&
  cellClean c gs groups kerning q marks ignoreMarks s g1 g2

/-- the extra hypotheses of `C05_end_to_end_lang`: the language is one the feature file declares for the tag (`dflt` always is),
    and — only when neither glyph is a letter of the script, so that the Common lookup must be reached — other features do not
    put the tag into the ScriptList without kerning, nor a `DFLT` LangSys for the language that the writer does not know of -/
def langHyp (d : Declared) (c : Ctx) (r : RegCtx) (s tag lang g1 g2 : String) : Bool :=
  (langsOf r tag).contains lang &&
  ((c.resolved g1).contains s || (c.resolved g2).contains s ||
    (!d.tags.contains tag && (!d.langSys.contains ("DFLT", lang) || (langsOf r "DFLT").contains lang)))

/-- what `C05_end_to_end` says `applyKern` returns: the rounded UFO value as advance, and as placement in a right-to-left script -/
def e2eExpected (c : Ctx) (groups : List (String × List String)) (kerning : List (String × String × Q)) (q : Q)
    (s g1 g2 : String) : Q × Q :=
  (quantize (ufoKern groups kerning g1 g2) q, if c.dir s == "RTL" then quantize (ufoKern groups kerning g1 g2) q else 0)

end Ufo2ft.C05
