import Ufo2ftModel.Model.C05
/-! C05, application semantics: what an OpenType shaper does with the kerning program the writer emits
    (`Program`: the lookups with their rules, and the script / language registrations of the `kern` and `dist` features),
    for two ADJACENT glyphs `g1 g2` of a run of one script tag, default language.

    The reference is `harness/gpos.py: pair_adjust / lookups_for` run on the COMPILED font; the op "apply" of the driver ties
    this file to it on every generated font.  What is described here is therefore feaLib's way of laying rules out in PairPos
    subtables plus the OpenType rule "a lookup applies its first subtable that matches, then stops":

    * a lookup referenced by the feature(s) under the script tag is applied once, in LookupList (= emission) order;
      a tag without registration (or whose registration references only rule-less lookup blocks, which feaLib does not
      build) falls back to `DFLT`; the adjustments of different lookups ADD;
    * inside a lookup feaLib puts every glyph pair — a `pos g1 g2 v` rule, or one expanded from an `enum pos` rule — into
      PairPos format 1 subtables, which come first; the FIRST definition of a glyph pair wins;
    * the remaining rules (class × class) go to PairPos format 2 subtables: a rule joins the current subtable while its first
      class is equal to or disjoint from every first class of the subtable, and the same on the second side
      (`ClassDefBuilder.canAdd`); otherwise a new subtable is started;
    * a format 2 subtable matches as soon as `g1` is in its coverage (the union of its first classes) — the cell of
      (class of g1, class of g2) is applied even when it is empty (zero), and no later subtable is looked at.

    Assumption (stated, not modelled): lookup flags (IgnoreMarks / mark filtering set) only decide which glyphs BETWEEN the
    two glyphs are skipped; for an adjacent pair they do not change which rule applies.  (The writer never puts a mark glyph
    into a rule of an IgnoreMarks lookup, so the reference interpreter, which lets such a lookup skip pairs containing a mark,
    agrees: see `C05_marks_never_in_base_lookup`.) -/
namespace Ufo2ft.C05
open Ufo2ft

/-- the value record of the first glyph: (xAdvance, xPlacement).  Right-to-left rules are written `<v 0 v 0>`. -/
def Rule.record (r : Rule) : Q × Q := (r.value, if r.rtl then r.value else 0)

/-- the rule's two sides contain the two glyphs -/
def Rule.hits (r : Rule) (g1 g2 : String) : Bool := r.side1.contains g1 && r.side2.contains g2

/-- feaLib: a glyph-glyph rule, or an `enum` rule, becomes specific glyph pairs (format 1); anything else a class pair (format 2) -/
def Rule.specific (r : Rule) : Bool := r.enumerated || (!r.firstIsClass && !r.secondIsClass)

/-- one PairPos format 2 subtable while feaLib's `ClassPairPosSubtableBuilder` fills it -/
structure ClassSubtable where
  classes1 : List (List String)
  classes2 : List (List String)
  cells : List ((List String × List String) × (Q × Q))      -- dict (class1, class2) → record: a later entry overrides
  deriving Repr

/-- `ClassDefBuilder.canAdd`: the class is already there, or none of its glyphs is in any class -/
def canAdd (classes : List (List String)) (gc : List String) : Bool :=
  classes.contains gc || gc.all (fun g => !classes.any (fun c => c.contains g))

def ClassSubtable.single (r : Rule) : ClassSubtable := ⟨[r.side1], [r.side2], [((r.side1, r.side2), r.record)]⟩

def ClassSubtable.add (st : ClassSubtable) (r : Rule) : ClassSubtable :=
  ⟨st.classes1 ++ [r.side1], st.classes2 ++ [r.side2], st.cells ++ [((r.side1, r.side2), r.record)]⟩

/-- `ClassPairPosSubtableBuilder.addPair`: (finished subtables, current subtable) -/
def addClassRule (acc : List ClassSubtable × Option ClassSubtable) (r : Rule) : List ClassSubtable × Option ClassSubtable :=
  match acc.2 with
  | none => (acc.1, some (ClassSubtable.single r))
  | some st =>
    if canAdd st.classes1 r.side1 && canAdd st.classes2 r.side2 then (acc.1, some (st.add r))
    else (acc.1 ++ [st], some (ClassSubtable.single r))

def classSubtables (rules : List Rule) : List ClassSubtable :=
  let r := rules.foldl addClassRule ([], none)
  r.1 ++ r.2.toList

/-- a format 2 subtable on (g1, g2): `none` = g1 not covered (the next subtable is tried); otherwise the cell, possibly zero -/
def ClassSubtable.apply (st : ClassSubtable) (g1 g2 : String) : Option (Q × Q) :=
  match st.classes1.find? (fun c => c.contains g1) with
  | none => none
  | some c1 =>
    match st.classes2.find? (fun c => c.contains g2) with
    | none => some (0, 0)                                  -- second glyph in class 0: an empty cell, but the subtable matched
    | some c2 => some (((st.cells.filter (fun e => e.1 == (c1, c2))).getLast?.map (·.2)).getD (0, 0))

/-- one lookup on the adjacent pair (g1, g2) -/
def Lookup.apply (l : Lookup) (g1 g2 : String) : Q × Q :=
  match (l.rules.filter (·.specific)).find? (·.hits g1 g2) with
  | some r => r.record
  | none => ((classSubtables (l.rules.filter (fun r => !r.specific))).findSome? (·.apply g1 g2)).getD (0, 0)

/-- feaLib builds a named lookup only if it has a rule; a reference to a lookup block that holds nothing but a lookupflag
    (the writer can leave such a block behind, see `makeSplitScriptKernLookups`) adds nothing to the feature -/
def Program.built (p : Program) (name : String) : Bool := p.lookups.any (fun l => l.name == name && !l.rules.isEmpty)

/-- names of the lookups the `kern` and `dist` features reference under the script tag (default language; every other
    declared language references the same list).  A script / language whose feature references no built lookup is not
    written to the ScriptList at all (feaLib `makeTable`); a tag that is not in the ScriptList falls back to `DFLT`. -/
def activeLookups (p : Program) (tag : String) : List String :=
  let regs := (p.kern ++ p.dist).filter (fun r => r.lookups.any p.built)
  let own := regs.filter (fun r => r.script == tag)
  (if own.isEmpty then regs.filter (fun r => r.script == "DFLT") else own).flatMap (·.lookups)

def addQ2 (a b : Q × Q) : Q × Q := (a.1 + b.1, a.2 + b.2)

/-- (xAdvance, xPlacement) adjustment of `g1` when followed by `g2` in a run of script tag `tag` -/
def applyKern (p : Program) (tag g1 g2 : String) : Q × Q :=
  ((p.lookups.filter (fun l => (activeLookups p tag).contains l.name)).map (·.apply g1 g2)).foldl addQ2 (0, 0)

end Ufo2ft.C05
