import Ufo2ftModel.Spec.C14
import Ufo2ftModel.Model.C14Run
/-!
Property C14 at the point where the report is consumed: one filter step of the interpolatable pre-processor.

For every master the step is given a filter or nothing.  Whatever way the pre-processor chooses to run them,

 * *report*: every glyph that differs in ANY master after the step is in the set the step reports;
 * *refresh*: the instantiator (when there is one) is refreshed whenever some glyph of some master changed, so that
   no later filter reads a stale source glyph or a stale cached interpolation model;
 * *footprint*: when all masters are given the same configuration of a class that has an interpolatable variant, the
   filters act as one filter whose include is the union of theirs (a glyph included in some master is processed in
   all of them); otherwise each master's glyph set is changed only as its own filter is allowed to, and a master
   that is given no filter is not changed at all.

The predicates are evaluated by the driver on the OBSERVED glyph sets / reported set / refresh of every step.
Nothing here refers to how `Model/C14Run.lean` computes.
-/
namespace Ufo2ft.C14

/-- the declarative view of a filter object: its configuration, whether its class has an interpolatable variant
 (or is one), its declared footprint and its include predicate -/
structure MFilter where
  cls : String
  opts : String
  pre : Bool
  conv : Bool
  fp : Footprint
  incl : Include

def MFilter.sameCfg (a b : MFilter) : Bool := b.cls == a.cls && b.opts == a.opts && b.pre == a.pre

def MFilter.sameCfgOpt (a : MFilter) : Option MFilter → Bool
  | some g => a.sameCfg g
  | none => false

/-- every master is given a filter, all of the first one's configuration, of a class with an interpolatable variant -/
def uniformB : List (Option MFilter) → Bool
  | some f :: rest => f.conv && rest.all f.sameCfgOpt
  | _ => false

def presentM (fs : List (Option MFilter)) : List MFilter := fs.filterMap id

/-- included by some master's filter -/
def unionInclM (fs : List (Option MFilter)) : Include := fun n g => (presentM fs).any (fun f => f.incl n g)

/-- report: whatever changed in any master is reported -/
def holdsRunReport (gss gss' : List GlyphSet) (modified : List String) : Bool :=
  gss.length == gss'.length &&
  (List.zip gss gss').all (fun p => (changedNames p.1 p.2).all (fun n => modified.contains n))

/-- some glyph of some master changed -/
def anyChangedB (gss gss' : List GlyphSet) : Bool :=
  (List.zip gss gss').any (fun p => !(changedNames p.1 p.2).isEmpty)

/-- refresh: a change in any master refreshes the instantiator -/
def holdsRefresh (hasInst : Bool) (gss gss' : List GlyphSet) (refreshed : Bool) : Bool :=
  !hasInst || !anyChangedB gss gss' || refreshed

/-- footprint, one filter per master: master i changes only as filter i may; no filter, no change -/
def footprintPer : List (Option MFilter) → List GlyphSet → List GlyphSet → Bool
  | [], [], [] => true
  | none :: fs, gs :: gss, gs' :: gss' => (changedNames gs gs').isEmpty && footprintPer fs gss gss'
  | some f :: fs, gs :: gss, gs' :: gss' => holdsFootprint f.fp f.incl gs gs' && footprintPer fs gss gss'
  | _, _, _ => false

/-- footprint of the filters acting as one (union of the includes, evaluated in any master) -/
def footprintUnion (fs : List (Option MFilter)) (gss gss' : List GlyphSet) : Bool :=
  match presentM fs with
  | [] => false
  | f :: _ =>
    gss.length == gss'.length &&
    (List.zip gss gss').all (fun p => (changedNames p.1 p.2).all (fun n => allowedIB f.fp (unionInclM fs) gss p.1 n))

def holdsRunFootprint (fs : List (Option MFilter)) (gss gss' : List GlyphSet) : Bool :=
  if uniformB fs then footprintUnion fs gss gss' else footprintPer fs gss gss'

/-- one successful filter step of the pre-processor -/
def holdsRun (hasInst : Bool) (fs : List (Option MFilter)) (gss : List GlyphSet) (modified : List String)
    (gss' : List GlyphSet) (refreshed : Bool) : Bool :=
  holdsRunReport gss gss' modified && holdsRefresh hasInst gss gss' refreshed && holdsRunFootprint fs gss gss'

/-- consumer side: what a later filter reads through the instantiator (`view`: every glyph of every master's
 interpolated layer) is what it reads after a forced refresh (`forced`) -/
def holdsView (view forced : List GlyphSet) : Bool := view == forced

/-! the declarative view of the model's filter objects (a projection, like `fpOf`) -/

def FSpec.toM (f : FSpec) : MFilter :=
  { cls := f.cls, opts := f.opts, pre := f.pre, conv := f.ikind.isSome, fp := fpOf f.kind, incl := f.incl }

def toMs (fs : List (Option FSpec)) : List (Option MFilter) := fs.map (fun o => o.map FSpec.toM)

end Ufo2ft.C14
