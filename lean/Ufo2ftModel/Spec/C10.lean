import Ufo2ftModel.Model.C10
import Ufo2ftModel.Model.C10Var
import Ufo2ftModel.Spec.C05
/-!
C10 declaratively.  "A variable font reproduces each master at that master's location", for the part that is ufo2ft's:
what the writers hand to feaLib (variable scalars) must carry, at every full source's location, exactly that source's own
value — for kerning the value UFO semantics assigns (exception fallback, not 0 and not an interpolation), for anchors the
rounded anchor of that source layer — and nothing from sparse sources.  Together with the `VarModel` law (varLib's part, a
hypothesis) this gives master reproduction.  `holdsMaster*` state the end-to-end property on an instantiated font.
-/
namespace Ufo2ft.C10
open Ufo2ft Ufo2ft.C05

/-- what a (possibly collapsed) value says at a location -/
def Value.at (v : Value) (l : Loc) : Option Q :=
  match v with
  | .num x => some x
  | .var s => alookup l s

def fullSources (srcs : List Source) : List Source := srcs.filter (fun s => !s.sparse)

def unionKeys (srcs : List Source) : List (String × String) :=
  (fullSources srcs).flatMap (fun s => s.kerning.map (fun e => (e.1, e.2.1)))

/-- UFO kerning semantics for an arbitrary kerning KEY (glyph or group name on either side): the key's own value if the
    source has it, else the value of the most specific more general key it is an exception of, else 0.
    Candidates in UFO precedence = first-major order over [name, its group] × [name, its group]. -/
def keyValue (cx : KCtx) (kerning : List (String × String × Q)) (p : String × String) : Q :=
  let firsts : List String :=
    if p.1.startsWith SIDE1_PREFIX then [p.1] else p.1 :: (glyphToGroup cx.side1Classes p.1).toList
  let seconds : List String :=
    if p.2.startsWith SIDE2_PREFIX then [p.2] else p.2 :: (glyphToGroup cx.side2Classes p.2).toList
  let cands := firsts.flatMap (fun f => seconds.map (fun s => (f, s)))
  ((cands.filterMap (fun c => kget kerning (some c.1) (some c.2))).head?).getD 0

/-- the value a source must contribute for key `p` -/
def wantKern (cx : KCtx) (s : Source) (p : String × String) : Q := quantize (keyValue cx s.kerning p) cx.q

def allEqual (s : Scalar) : Bool :=
  match s with
  | [] => true
  | (_, v0) :: rest => rest.all (fun e => e.2 == v0)

/-- `getVariableKerningPairs`' contract:
 (1) every usable key of the union of the full sources' kerning is emitted, and its value AT EACH FULL SOURCE'S LOCATION is that
     source's UFO value (quantised) — only a class-class key that is 0 in every source may be omitted;
 (2) nothing else is emitted: every emitted key is such a key, every location of an emitted scalar is a full source's location
     (sparse sources contribute nothing) or the default location, and a scalar is emitted only if its values really differ;
 (3) no key is emitted twice. -/
def holdsKern (cx : KCtx) (srcs : List Source) (defaultLoc : Loc) (out : List (Key × Value)) : Bool :=
  let full := fullSources srcs
  let valid := (unionKeys srcs).filter (validPair cx)
  valid.all (fun p =>
    let k := substKey cx p
    match alookup k out with
    | some v => full.all (fun s => v.at s.loc == some (wantKern cx s p))
    | none => k.1.isClass && k.2.isClass && full.all (fun s => wantKern cx s p == 0))
  && out.all (fun e =>
    valid.any (fun p => substKey cx p == e.1) &&
    (match e.2 with
     | .num _ => true
     | .var s => s.all (fun le => full.any (fun src => src.loc == le.1) || le.1 == defaultLoc) && !allEqual s))
  && decide (out.map (·.1)).Nodup

/-- inputs on which the contract is claimed: full sources sit at pairwise different locations, the default location is a full
    source's, and distinct usable keys stay distinct after class substitution (true for `getKerningGroups`' classes: non-empty and
    pairwise disjoint) -/
def wfKern (cx : KCtx) (srcs : List Source) (defaultLoc : Loc) : Bool :=
  let full := fullSources srcs
  let valid := dedupFirst ((unionKeys srcs).filter (validPair cx))
  decide (full.map (·.loc)).Nodup && full.any (fun s => s.loc == defaultLoc) && decide (valid.map (substKey cx)).Nodup

/-! ### anchors -/

/-- the anchor `_getAnchor` reads in a layer: the LAST anchor of that name in the glyph -/
def layerAnchor (ly : AnchorLayer) (glyph anchor : String) : Option (Q × Q) :=
  match alookup glyph ly.glyphs with
  | none => none
  | some as => ((as.filter (fun a => a.1 == anchor)).getLast?).map (·.2)

def holdsAnchor (layers : List AnchorLayer) (glyph anchor : String) (out : Option (Value × Value)) : Bool :=
  let haveL := layers.filter (fun ly => (layerAnchor ly glyph anchor).isSome)
  match out with
  | none => haveL.isEmpty
  | some (vx, vy) =>
    !haveL.isEmpty &&
    haveL.all (fun ly => match layerAnchor ly glyph anchor with
      | some (x, y) => vx.at ly.loc == some (otRound x : Q) && vy.at ly.loc == some (otRound y : Q)
      | none => false) &&
    [vx, vy].all (fun v => match v with
      | .num _ => true
      | .var s => s.all (fun le => haveL.any (fun ly => ly.loc == le.1)) && !allEqual s)

def wfAnchor (layers : List AnchorLayer) : Bool := decide (layers.map (·.loc)).Nodup

/-! ### collapse -/

/-- a plain number only if every entry equals it; otherwise the scalar itself, unchanged -/
def holdsCollapse (s : Scalar) (v : Value) : Bool :=
  match v with
  | .num x => !s.isEmpty && s.all (fun e => e.2 == x)
  | .var s' => s' == s && (s.isEmpty || !allEqual s)

/-! ### feature compatibility -/

def holdsCompat (texts : List String) (dflt : Nat) (b : Bool) : Bool :=
  let first := transform (texts.getD dflt "")
  let rest := (texts.eraseIdx dflt).map transform
  b == (decide (∀ t ∈ rest, t = first) || decide (∀ t ∈ rest, t = []))

/-! ### what GPOS first-match does with the emitted pairs (feaLib: glyph pairs before class pairs, first definition wins;
        C05: the writer's order is glyph-glyph, glyph-class, class-glyph, class-class) -/

/-- the kerning keys that cover the glyph pair `(g1, g2)`, most specific first (`G1`/`G2` = the groups of `g1`/`g2`) -/
def chain (g1 g2 : String) (G1 G2 : Option String) : List (String × String) :=
  (g1, g2) :: (G2.toList.map (fun b => (g1, b)) ++ (G1.toList.map (fun a => (a, g2)) ++
    G1.toList.flatMap (fun a => G2.toList.map (fun b => (a, b)))))

/-- the most specific key covering the pair among the keys `U` for which a rule is emitted -/
def firstKey (U : List (String × String)) (g1 g2 : String) (G1 G2 : Option String) : Option (String × String) :=
  (chain g1 g2 G1 G2).find? (fun k => U.contains k)

/-- the adjustment a shaper applies to the glyph pair `(g1, g2)` at location `l`, reading the emitted pairs first-match:
    the value at `l` of the rule of the most specific emitted key covering the pair (0 if there is none or it was omitted as zero) -/
def appliedAt (cx : KCtx) (U : List (String × String)) (out : List (Key × Value)) (l : Loc) (g1 g2 : String) : Q :=
  match firstKey U g1 g2 (glyphToGroup cx.side1Classes g1) (glyphToGroup cx.side2Classes g2) with
  | none => 0
  | some k => match alookup (substKey cx k) out with
    | some v => (v.at l).getD 0
    | none => 0

/-- UFO semantics for a glyph pair with explicit group membership (the same precedence as `C05.ufoKern`) -/
def ufoKern' (G1 G2 : Option String) (kerning : List (String × String × Q)) (g1 g2 : String) : Q :=
  match kget kerning (some g1) (some g2) with
  | some v => v
  | none => match kget kerning (some g1) G2 with
    | some v => v
    | none => match kget kerning G1 (some g2) with
      | some v => v
      | none => (kget kerning G1 G2).getD 0

/-- the one shape in which per-key UFO fallback and first-match over keys disagree: the glyph-class key `(g1, G2)` exists in
    some source but not in `s`, no glyph-glyph key exists anywhere, and `s` has the class-glyph key `(G1, g2)` -/
def diamond (cx : KCtx) (srcs : List Source) (s : Source) (g1 g2 : String) : Bool :=
  match glyphToGroup cx.side1Classes g1, glyphToGroup cx.side2Classes g2 with
  | some G1, some G2 =>
    !(unionKeys srcs).contains (g1, g2) && (unionKeys srcs).contains (g1, G2) &&
    (kget s.kerning (some g1) (some G2)).isNone && (kget s.kerning (some G1) (some g2)).isSome
  | _, _ => false

/-! ### sources that do not carry the same groups -/

/-- a master's OWN view (`own`: looked up in that master's groups.plist) of a glyph's first-side group against the family's view
    (`fam`: looked up in the classes `getKerningGroups` collects from ALL sources): the same group, or the master does not define
    the group - and then none of its kerning keys names it ("a pair, with its groups, present in one master only") -/
def ownGroupOK1 (K : List (String × String × Q)) (own fam : Option String) : Prop :=
  own = fam ∨ (own = none ∧ ∀ n, fam = some n → ∀ e ∈ K, e.1 ≠ n)

/-- the same for the second side -/
def ownGroupOK2 (K : List (String × String × Q)) (own fam : Option String) : Prop :=
  own = fam ∨ (own = none ∧ ∀ n, fam = some n → ∀ e ∈ K, e.2.1 ≠ n)

/-! ### end to end, on an instantiated font -/

structure MasterIn where
  glyphs : List String
  groups : List (String × List String)          -- the master UFO's own groups
  kerning : List (String × String × Q)          -- the master UFO's own kerning
  q : Q                                          -- kern quantisation
  tol : Q                                        -- 0 when every support scalar at this master is 0 or 1 (then reproduction is exact)
  anchors : List (String × List (String × Q × Q))   -- master glyph → anchors

/-- glyph pairs whose applied adjustment at the master's location is not the master's UFO kerning -/
def wrongKern (m : MasterIn) (applied : List ((String × String) × Q)) : List (String × String) :=
  (m.glyphs.flatMap (fun g1 => m.glyphs.map (fun g2 => (g1, g2)))).filter (fun p =>
    let expected := quantize (ufoKern m.groups m.kerning p.1 p.2) m.q
    let got := (alookup p applied).getD 0
    absQ (got - expected) > m.tol)

def lastAnchor (m : MasterIn) (g a : String) : Option (Q × Q) :=
  ((((alookup g m.anchors).getD []).filter (fun e => e.1 == a)).getLast?).map (·.2)

/-- observed attachments `(base, mark, anchor name, dx, dy)`: the offset must be round(base anchor) - round(mark anchor) of THIS master -/
def wrongMarks (m : MasterIn) (obs : List (String × String × String × Option (Q × Q))) : List (String × String × String) :=
  (obs.filter (fun (e : String × String × String × Option (Q × Q)) =>
    let (b, mk, an, off) := e
    match lastAnchor m b an, lastAnchor m mk ("_" ++ an) with
    | some (bx, by'), some (mx, my) =>
      (match off with
       | some (dx, dy) => absQ (dx - ((otRound bx : Q) - (otRound mx : Q))) > m.tol || absQ (dy - ((otRound by' : Q) - (otRound my : Q))) > m.tol
       | none => true)
    | _, _ => false)).map (fun e => (e.1, e.2.1, e.2.2.1))

/-- outlines / advances: same structure, every number within one unit -/
def nearLists (a b : List Q) : Bool := a.length == b.length && (a.zip b).all (fun p => absQ (p.1 - p.2) ≤ 1)

/-! ### the n-axis `VariationModel` (Model/C10Var) -/

/-- what `VariationModel(locations)` is given by varLib: dicts (keys pairwise different) with coordinates in [-1, 1] (zeros
    allowed), pairwise different - also after dropping the zeros -, one of them the origin -/
def wfInput (locations : List NLoc) : Prop :=
  (∀ l ∈ locations, (keysOf l).Nodup ∧ ∀ e ∈ l, -1 ≤ e.2 ∧ e.2 ≤ 1) ∧ allDistinct locations = true ∧
    allDistinct (locations.map dropZeros) = true ∧ (locations.map dropZeros).contains [] = true

instance (locations : List NLoc) : Decidable (wfInput locations) := by unfold wfInput; infer_instance

/-- master reproduction, as a predicate on what was read back at the masters' locations: one number per master, each within
    `tol` of that master's value -/
def holdsReproduce (values atMasters : List Q) (tol : Q) : Bool :=
  atMasters.length == values.length && (atMasters.zip values).all (fun p => absQ (p.1 - p.2) ≤ tol)

end Ufo2ft.C10
