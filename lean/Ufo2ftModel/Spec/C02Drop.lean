import Ufo2ftModel.Model.C02Drop
import Ufo2ftModel.Spec.Render
/-!
C02 with `dropImpliedOnCurves=True`, declaratively.

TrueType semantics: between two consecutive off-curve points of a closed contour an on-curve point at their midpoint is
implied.  `expandImplied` writes every implied point out; two contours with the same expansion are the same sequence of
quadratic segments.  The predicates below say what a compiled contour must be in terms of the SOURCE contour only:
its explicit points are rounded source points in source order, and its expansion is the source's expansion point for
point (same on/off flags, every coordinate within 1/2, which is what integer rounding costs) — possibly starting one point
later, which happens exactly when the contour's first point is one of the implied ones.
-/
namespace Ufo2ft.C02
open Ufo2ft

/-- the implied on-curve point between two off-curve points -/
def midPt (a b : QPt) : QPt := ⟨(a.x + b.x) / 2, (a.y + b.y) / 2, true⟩

/-- a point, followed by the implied point if it and its successor are both off-curve -/
def emit (p nxt : QPt) : List QPt := if !p.on && !nxt.on then [p, midPt p nxt] else [p]

def expGo (first : QPt) : List QPt → List QPt
  | [] => []
  | p :: r => emit p (r.headD first) ++ expGo first r

/-- a closed contour with every implied on-curve point written out (an all-off-curve contour gets one between every two
    neighbours, cyclically) -/
def expandImplied (c : List QPt) : List QPt :=
  match c with
  | [] => []
  | p :: r => expGo p (p :: r)

/-- the same cyclic sequence started one point later -/
def rot1 : List α → List α
  | [] => []
  | a :: l => l ++ [a]

/-- same flag, both coordinates within `tol` -/
def nearPt (tol : Q) (p q : QPt) : Bool :=
  p.on == q.on && decide (absQ (p.x - q.x) ≤ tol) && decide (absQ (p.y - q.y) ≤ tol)

def nearAll (tol : Q) : List QPt → List QPt → Bool
  | [], [] => true
  | p :: l, q :: l' => nearPt tol p q && nearAll tol l l'
  | _, _ => false

/-- the rendered outline is the source's within `tol` per coordinate, same start point or the next one -/
def sameOutline (tol : Q) (src obs : List QPt) : Bool :=
  nearAll tol (expandImplied src) (expandImplied obs) || nearAll tol (rot1 (expandImplied src)) (expandImplied obs)

/-- one compiled contour against its source contour (already re-anchored / reversed, unrounded) -/
def holdsDropContour (src : List QPt) (obs : List TTPoint) : Bool :=
  obs.isSublist (roundQ src) && sameOutline (1/2) src (ofTT obs)

def holdsDropGlyph (src : QGlyph) (obs : List (List TTPoint)) : Bool :=
  src.length == obs.length && (src.zip obs).all (fun e => holdsDropContour e.1 e.2)

/-- the option did its job: no on-curve point of the compiled contour is the midpoint of two off-curve neighbours any more -/
def noImpliableLeft (obs : List TTPoint) : Bool := (contourMask dropTest (ofTT obs)).all (fun b => !b)

/-- the points of `c` that carry the observed flags: walking `c`, a point whose flag is the next observed flag is taken,
    any other point is passed over (for a contour obtained by leaving out on-curve points between two off-curve points
    this recovers exactly the points that were kept) -/
def pickByFlags : List QPt → List Bool → List QPt
  | [], _ => []
  | _, [] => []
  | p :: l, f :: fs => if p.on == f then p :: pickByFlags l fs else pickByFlags l (f :: fs)

/-- the option did its job on the SOURCE coordinates (the code tests before it rounds): of the source points that are still
    there (those the observed flags pick) none passes the code's own two-armed test any more -/
def noImpliableLeftSrc (src : List QPt) (obs : List TTPoint) : Bool :=
  (contourMask dropTest (pickByFlags src (obs.map (·.on)))).all (fun b => !b)

/-- a single font's glyph: only impliable points are missing, and none is left — neither in the compiled contour nor, tested
    on the unrounded source coordinates, among the source points that were kept -/
def holdsDropGlyphMax (src : QGlyph) (obs : List (List TTPoint)) : Bool :=
  holdsDropGlyph src obs && obs.all noImpliableLeft && (src.zip obs).all (fun e => noImpliableLeftSrc e.1 e.2)

/-- a glyph that ends up simple: every contour of its resolved source outline, in TrueType convention, is there with only
    impliable points missing, and no impliable point is left -/
def holdsSimpleDrop (o : Opts) (gs : GlyphSet) (g : Glyph) (obs : List (List TTPoint)) : Bool :=
  holdsDropGlyphMax ((renderGlyph gs g).map (fun c => toQPts (ttContour o c))) obs

/-! ### joint dropping, observed on the variable font's default glyf entry -/

/-- the observed flag pattern fits master contour `c`: the points picked by the flags use the flags up, and compiled alone
    with exactly that point set the master would still render its own outline within rounding -/
def fitsMaster (c : List QPt) (flags : List Bool) : Bool :=
  let pick := pickByFlags c flags
  pick.map (·.on) == flags && sameOutline (1/2) c (ofTT (roundQ pick))

/-- what is left of master `g`'s contour `i`: the points the observed flags pick -/
def keptOf (g : QGlyph) (obs : List (List TTPoint)) (i : Nat) : List QPt :=
  pickByFlags (g.getD i []) ((obs.getD i []).map (·.on))

/-- pointwise "and" of a list of masks -/
def andMasks : List (List Bool) → List Bool
  | [] => []
  | m :: ms => ms.foldl (List.zipWith (fun x y => x && y)) m

/-- **joint maximality**: the joint drop has happened — in no contour is there a point left that passes the code's own
    two-armed test (on the masters' own unrounded coordinates, among the points that are left) in ALL participating masters -/
def noJointImpliableLeft (simple : List QGlyph) (obs : List (List TTPoint)) : Bool :=
  (List.range obs.length).all (fun i =>
    (andMasks (simple.map (fun g => contourMask dropTest (keptOf g obs i)))).all (fun b => !b))

/-- the default master's contours are its source contours with only impliable points missing, and — when the participating
    masters are point-compatible — the point set that is left fits EVERY master (a point that is not impliable in some
    master is still there) and nothing that is impliable in every master is left -/
def holdsJoint (masters : List QGlyph) (dflt : Nat) (obs : List (List TTPoint)) : Bool :=
  holdsDropGlyph (masters.getD dflt []) obs &&
  ((masters.getD dflt []).isEmpty ||
   let simple := simpleMasters masters
   let compatible := simple.all (fun g => shape g == shape (simple.headD []))
   !compatible ||
   (simple.all (fun g => g.length == obs.length && (g.zip obs).all (fun e => fitsMaster e.1 (e.2.map (·.on)))) &&
    noJointImpliableLeft simple obs))

/-! ### every master's outline survives in the variable font -/

def nearInt (tol : Int) (a b : Int) : Bool := decide (a - b ≤ tol) && decide (b - a ≤ tol)

/-- the variable font instantiated at master `g`'s location (`inst`), against that master: the same contours and flags as
    the default glyf entry (`obs`), and every point is the master's own point — the one the flags pick — rounded, within
    `tol` units (gvar deltas are rounded, IUP-optimised deltas are inferred within 1/2 and the instance is rounded again) -/
def holdsInstance (tol : Int) (g : QGlyph) (obs inst : List (List TTPoint)) : Bool :=
  inst.length == obs.length &&
  (List.range obs.length).all (fun i =>
    let pick := roundQ (keptOf g obs i)
    let ci := inst.getD i []
    ci.length == pick.length &&
    (pick.zip ci).all (fun e => e.1.on == e.2.on && nearInt tol e.1.x e.2.x && nearInt tol e.1.y e.2.y))

end Ufo2ft.C02
