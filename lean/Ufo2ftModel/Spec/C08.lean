import Ufo2ftModel.Model.C08
/-!
Property C08 as decidable predicates on OBSERVED outputs.

* `holdsPure`      — the property itself: every font produced under some configuration (hash seed, call history,
                     UFO library, memory / disk, inplace, container order) has the digest of the reference run.
* `holdsSame`      — an emitter, run on two iteration orders of the same set / dict, produced the same output.
* `holdsSortedOn`  — what a deterministic emission of a set must look like: a rearrangement of its input that is
                     ordered by a key.  (`Props`: two lists that satisfy it for rearranged inputs are EQUAL when keys
                     are distinct, so nothing of the iteration order can survive.)
* `holdsInfoStable` / `holdsOverride` — InfoCompiler (variable-font fontinfo overrides): the master's Info object shows the
                     same attributes afterwards; the temporary Info has the override value for every overridden
                     attribute, the master's value for every other one, and nothing else.
* `holdsPartition` — splitKerning's buckets: script tuples pairwise disjoint, every bucket's pairs ordered.
-/
namespace Ufo2ft.C08

/-- decidable `Pairwise (le (key ·) (key ·))` -/
def sortedOn (le : κ → κ → Bool) (key : α → κ) : List α → Bool
  | [] => true
  | a :: l => l.all (fun b => le (key a) (key b)) && sortedOn le key l

def holdsSortedOn [BEq α] (le : κ → κ → Bool) (key : α → κ) (input obs : List α) : Bool :=
  obs.isPerm input && sortedOn le key obs

def holdsSame [BEq β] (a b : β) : Bool := a == b

/-- `ref`: kind ↦ digest of the reference run; `obs`: (kind, digest) of every other run. -/
def holdsPure (ref : List (String × String)) (obs : List (String × String)) : Bool :=
  obs.all (fun o => alookup o.1 ref == some o.2)

/-- a glyph copy made from a defcon glyph and one made from a ufoLib2 glyph both show exactly the source's observable fields -/
def holdsCopy (src viaUfoLib2 viaDefcon : GlyphRec) : Bool :=
  viaUfoLib2.observable == src.observable && viaDefcon.observable == src.observable

/-- the caller's Info object (all attributes, canonical order) before and after the call -/
def holdsInfoStable (before after : InfoD) : Bool := before == after

/-- for every attribute that occurs anywhere: the temporary Info has the override when there is one, else the master's
value (absent when the master has none) -/
def holdsOverride (src ov temp : InfoD) : Bool :=
  (src ++ ov ++ temp).all (fun e => alookup e.1 temp == (match alookup e.1 ov with | some v => some v | none => alookup e.1 src))

/-- buckets of splitKerning: keys pairwise disjoint script sets, each key itself sorted, each pair list sorted by
the KerningPair order. -/
def holdsPartition (buckets : List (List String × List KPair)) : Bool :=
  decide ((buckets.map Prod.fst).Pairwise (fun a b => disjoint a b = true)) &&
  buckets.all (fun e => sortedOn strLe id e.1 && sortedOn keyLe KPair.key e.2)

end Ufo2ft.C08
