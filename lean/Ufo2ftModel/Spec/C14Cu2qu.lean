import Ufo2ftModel.Spec.C14
/-!
C14 for histories on ONE source font: "it never touches the source font when given a separate glyph set; it
carries no state from one invocation to the next".  Consequence that can be observed without looking into the
font: running the same filter object a second time on the same source font, with NEW copies of its glyphs as
the glyph set, gives what the first run gave (error kind, returned set, glyph set afterwards).
-/
namespace Ufo2ft.C14

def holdsAgain (separate : Bool) (first : Outcome) (again : Option Outcome) : Bool :=
  match again with
  | none => true
  | some a => !separate || a == first

end Ufo2ft.C14
