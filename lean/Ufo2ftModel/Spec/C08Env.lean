import Ufo2ftModel.Model.C08Env
/-!
Property C08, predicates for the environment / UFO-library streams (declarative, on OBSERVED data).

* `holdsCreated`  — "once SOURCE_DATE_EPOCH pins the timestamps": with the variable set (or `openTypeHeadCreated` given in the
                    fontinfo) the creation date obtained under two different wall clocks is the same, and it is the calendar
                    date of that very instant (`denotes`: days counted year by year and month by month - nothing of the
                    model's era arithmetic).  With the variable unset nothing is promised.
* `holdsClosest`  — the promoted component is the first one whose lower-left corner is nearest to the origin.
* `holdsBounds`   — both UFO libraries' `_bounds` branch returned the exact lower-left corner of each component.
-/
namespace Ufo2ft.C08

def isLeap (y : Nat) : Bool := (y % 4 == 0 && y % 100 != 0) || y % 400 == 0
def daysInYear (y : Nat) : Nat := if isLeap y then 366 else 365
def daysInMonth (y m : Nat) : Nat :=
  if m == 2 then (if isLeap y then 29 else 28) else if m == 4 || m == 6 || m == 9 || m == 11 then 30 else 31

/-- days from 1970-01-01 to y-m-d, counted year by year and month by month -/
def daysSince1970 (y m d : Nat) : Nat :=
  ((List.range (y - 1970)).map (fun k => daysInYear (1970 + k))).sum +
  ((List.range (m - 1)).map (fun k => daysInMonth y (k + 1))).sum + (d - 1)

/-- the six numbers are a valid UTC calendar date + time of day, and that instant is `e` seconds after the epoch -/
def denotes (f : List Nat) (e : Nat) : Bool :=
  match f with
  | [y, m, d, h, mi, s] =>
    decide (1970 ≤ y) && decide (1 ≤ m) && decide (m ≤ 12) && decide (1 ≤ d) && decide (d ≤ daysInMonth y m) &&
    decide (h < 24) && decide (mi < 60) && decide (s < 60) &&
    daysSince1970 y m d * 86400 + h * 3600 + mi * 60 + s == e
  | _ => false

/-- `a`, `b`: what was obtained under two different wall clocks (`none` = an exception) -/
def holdsCreated (explicit : Option (List Nat)) (env : Epoch) (a b : Option (List Nat)) : Bool :=
  match explicit, env with
  | some v, _ => a == some v && b == some v
  | none, .value e => a == b && (match a with | some f => denotes f e | none => false)
  | none, .invalid => a == none && b == none
  | none, .unset => true

def holdsClosest (bounds : List (Q × Q)) (chosen : Nat) : Bool :=
  match bounds[chosen]? with
  | none => false
  | some c => bounds.all (fun p => decide (dist2 c ≤ dist2 p)) && (bounds.take chosen).all (fun p => decide (dist2 c < dist2 p))

def holdsBounds (exact viaDefcon viaUfoLib2 : List (Q × Q)) : Bool := viaDefcon == exact && viaUfoLib2 == exact

end Ufo2ft.C08
