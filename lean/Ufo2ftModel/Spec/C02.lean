import Ufo2ftModel.Model.C02
import Ufo2ftModel.Spec.Render
/-! C02 declaratively. -/
namespace Ufo2ft.C02
open Ufo2ft

def isMixedOrSimple (g : Glyph) : Bool := g.comps.isEmpty || !g.contours.isEmpty

/-- point-for-point: the contours of a glyph that ends up simple are the contours of its resolved source outline,
    re-anchored / reversed to the TrueType convention, every coordinate rounded, on/off flags kept -/
def specSimple (o : Opts) (gs : GlyphSet) (g : Glyph) : List (List TTPoint) :=
  (renderGlyph gs g).map (fun c => ttPts (ttContour o c))

/-- same contours as a multiset, each compared up to its start point when the source started off-curve -/
def holdsSimple (o : Opts) (gs : GlyphSet) (g : Glyph) (obs : List (List TTPoint)) : Bool :=
  obs == specSimple o gs g

/-- a glyph made only of components keeps those references (offsets rounded, 2×2 untouched) -/
def holdsComposite (gs : GlyphSet) (g : Glyph) (flatten : Bool) (obs : List TTComp) (order : List String) : Bool :=
  obs.all (fun k => order.contains k.base) &&
  (if flatten then
     -- no reference is nested deeper than one level
     obs.all (fun k => match gs.get? k.base with | some b => isMixedOrSimple b | none => false)
   else obs == g.comps.map (fun k => ⟨k.base, otRound k.t.dx, otRound k.t.dy, k.t.linear⟩))

def sameMultiset (a b : List (List TTPoint)) : Bool :=
  a.length == b.length && a.all (fun c => a.count c == b.count c) && b.all (fun c => a.count c == b.count c)

/-- with a skip-export list: splicing a skipped component in may change the order of contours (it is drawn where the
    reference stood), so the contours are compared as a multiset -/
def holdsSimpleSkip (o : Opts) (gs : GlyphSet) (g : Glyph) (obs : List (List TTPoint)) : Bool :=
  sameMultiset obs (specSimple o gs g)

/-- with a skip-export list: a glyph that stays a composite references only glyphs present in the compiled font, none of
    them skipped, and — interpreting the observed references (integral offsets, exact 2×2) over the SOURCE glyph set — it
    draws exactly the contours the source glyph drew (as a multiset) -/
def holdsCompositeSkip (skip : List String) (gs : GlyphSet) (g : Glyph) (obs : List TTComp) (order : List String) : Bool :=
  obs.all (fun k => order.contains k.base && !skip.contains k.base) &&
  (let asComps : List Comp := obs.map (fun k => ⟨k.base, ⟨k.lin.1, k.lin.2.1, k.lin.2.2.1, k.lin.2.2.2, (k.dx : Q), (k.dy : Q)⟩⟩)
   let drawn := renderGlyph gs { g with contours := [], comps := asComps }
   let want := renderGlyph gs g
   drawn.length == want.length && drawn.all (fun c => drawn.count c == want.count c) &&
     want.all (fun c => drawn.count c == want.count c))

end Ufo2ft.C02
