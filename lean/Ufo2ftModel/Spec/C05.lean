import Ufo2ftModel.Model.C05
/-! C05 declaratively: UFO kerning semantics (`fontTools.ufoLib.kerning.lookupKerningValue`) as the reference, and the
    predicate relating it to what a shaper applies under each script. -/
namespace Ufo2ft.C05
open Ufo2ft

/-- glyph → group of the given prefix (a later group overrides an earlier one, as the dict assignment does) -/
def groupOf (pfx : String) (groups : List (String × List String)) (g : String) : Option String :=
  (groups.filter (fun e => e.1.startsWith pfx && e.2.contains g)).getLast?.map (·.1)

def kernGet (kerning : List (String × String × Q)) (a b : Option String) : Option Q :=
  match a, b with
  | some x, some y => (kerning.filter (fun e => e.1 == x && e.2.1 == y)).getLast?.map (fun e => e.2.2)
  | _, _ => none

/-- UFO precedence: glyph-glyph, glyph-group, group-glyph, group-group, else 0 -/
def ufoKern (groups : List (String × List String)) (kerning : List (String × String × Q)) (g1 g2 : String) : Q :=
  let G1 := groupOf SIDE1_PREFIX groups g1
  let G2 := groupOf SIDE2_PREFIX groups g2
  match kernGet kerning (some g1) (some g2) with
  | some v => v
  | none => match kernGet kerning (some g1) G2 with
    | some v => v
    | none => match kernGet kerning G1 (some g2) with
      | some v => v
      | none => (kernGet kerning G1 G2).getD 0

/-- UFO 3 validity of the kerning groups: no glyph in two groups of the same side -/
def validGroups (groups : List (String × List String)) : Bool :=
  let side := fun (pfx : String) => (groups.filter (fun e => e.1.startsWith pfx)).flatMap (·.2)
  decide (side SIDE1_PREFIX).Nodup && decide (side SIDE2_PREFIX).Nodup

/-- independent classification of the glyphs (from Unicode data and the generated GSUB rules) -/
structure Indep where
  scripts : List (String × List String)     -- glyph → scripts it belongs to (may contain Zyyy / Zinh)
  bidi : List (String × String)             -- glyph → "R" | "L" | ""
  dir : List (String × String)              -- script → "LTR" | "RTL"

def Indep.neutral (i : Indep) (g : String) : Bool :=
  match alookup g i.scripts with
  | none => true
  | some s => s.any DFLT_SCRIPTS.contains
def Indep.inScript (i : Indep) (s g : String) : Bool :=
  i.neutral g || ((alookup g i.scripts).getD []).contains s
def Indep.opposite (i : Indep) (g1 g2 : String) : Bool :=
  let b1 := (alookup g1 i.bidi).getD ""; let b2 := (alookup g2 i.bidi).getD ""
  (b1 == "R" && b2 == "L") || (b1 == "L" && b2 == "R")
/-- a pair the writer is specified to drop: its glyphs have scripts of both horizontal directions -/
def Indep.mixed (i : Indep) (g1 g2 : String) : Bool :=
  let ds := fun g => (((alookup g i.scripts).getD []).filter (fun s => !DFLT_SCRIPTS.contains s)).map (fun s => (alookup s i.dir).getD "LTR")
  let d := ds g1 ++ ds g2
  d.contains "LTR" && d.contains "RTL"

/-- the pairs of `glyphs` whose applied adjustment under Unicode script `s` is not what the property promises -/
def wrongPairs (i : Indep) (groups : List (String × List String)) (kerning : List (String × String × Q)) (q : Q)
    (glyphs : List String) (s : String) (applied : List ((String × String) × (Q × Q))) : List (String × String) :=
  (glyphs.flatMap (fun g1 => glyphs.map (fun g2 => (g1, g2)))).filter (fun (g1, g2) =>
    if !(i.inScript s g1 && i.inScript s g2) then false else
    let expected := quantize (ufoKern groups kerning g1 g2) q
    let (adv, pla) := (alookup (g1, g2) applied).getD (0, 0)
    let rtl := (alookup s i.dir).getD "LTR" == "RTL"
    let hasL := (alookup g1 i.bidi).getD "" == "L" || (alookup g2 i.bidi).getD "" == "L"
    if i.opposite g1 g2 || i.mixed g1 g2 then
      !((adv == 0 && pla == 0) || adv == expected)           -- droppable: zero or the UFO value, never a third number
    else
      !(adv == expected && (if rtl then (pla == expected || (hasL && pla == 0)) else pla == 0)))

/-- kerning-group name prefixes -/
def is1 (n : String) : Bool := n.startsWith SIDE1_PREFIX
def is2 (n : String) : Bool := n.startsWith SIDE2_PREFIX

/-- the inputs for which the kern writer is claimed to realise UFO kerning semantics:
    * the groups are valid UFO 3 kerning groups (no glyph in two groups of one side),
    * group names are distinct and kerning keys (first, second) are distinct (both are Python dict keys),
    * no glyph of the font is called like a kerning group (`public.kern1.*` / `public.kern2.*`). -/
def wfKern (glyphSet : List String) (groups : List (String × List String)) (kerning : List (String × String × Q)) : Bool :=
  validGroups groups && decide (groups.map (·.1)).Nodup &&
  groups.all (fun e => !((is1 e.1 || is2 e.1) && glyphSet.contains e.1)) &&
  decide (kerning.map (fun e => (e.1, e.2.1))).Nodup

end Ufo2ft.C05
