import Ufo2ftModel.Model.C18
/-!
Declarative statement of property C18 as decidable predicates on (input, observed output).
They talk about the UFO data directly (every anchor by its own coordinates, the category of a glyph
as a dictionary read, the pair an entry anchor belongs to), not about the loops of the writers.

Observation levels: "fea" = the statements the GDEF writer appended (read back from the final feature
text), "font" = the compiled GDEF / GPOS tables.
-/
namespace Ufo2ft.C18

/-- what the spec additionally needs to know about the user's feature file -/
structure UserGdef where
  classes : List (String × Nat)          -- compiled classes the user's GlyphClassDef statements define
  carets : List (String × List Int)      -- compiled caret lists the user's statements define

def glyphNames (i : Input) : List String := i.glyphs.map (·.name)

/-- `public.openTypeCategories[g]` -/
def catOf (i : Input) (g : String) : Option String := alookup g i.categories

def userAnyClassDef (i : Input) : Bool := i.blocks.any (·.hasClassDef)
def userAnyCarets (i : Input) : Bool := i.blocks.any (·.hasCarets)

def strictSorted (l : List String) : Bool := decide (l.Pairwise (· < ·))

/-- `l` is exactly the exported glyphs whose category is `cat`, in increasing order, each once -/
def classIs (i : Input) (cat : String) (l : List String) : Bool :=
  strictSorted l &&
  l.all (fun g => (glyphNames i).contains g && catOf i g == some cat) &&
  (glyphNames i).all (fun g => catOf i g != some cat || l.contains g)

def expectsClass (i : Input) (cat : String) : Bool :=
  (glyphNames i).any (fun g => catOf i g == some cat)

def expectsAnyClass (i : Input) : Bool :=
  expectsClass i "base" || expectsClass i "ligature" || expectsClass i "mark" || expectsClass i "component"

/-- **classes, writer level**: nothing is emitted when the user's features define the classes;
otherwise what is emitted is the category map restricted to exported glyphs, and something is
emitted whenever some exported glyph has a class. -/
def holdsClassesFea (i : Input) (obs : Option ClassDef) : Bool :=
  if userAnyClassDef i then obs.isNone
  else match obs with
    | none => !expectsAnyClass i
    | some cd => classIs i "base" cd.base && classIs i "ligature" cd.ligature &&
                 classIs i "mark" cd.mark && classIs i "component" cd.component

def catCode (c : Option String) : Option Nat :=
  if c == some "base" then some 1 else if c == some "ligature" then some 2
  else if c == some "mark" then some 3 else if c == some "component" then some 4 else none

/-- **classes, compiled font**: the user's classes when the user defines them; else, whenever the
UFO assigns a class to an exported glyph, the compiled class of every exported glyph is the code of
its category.  (When no exported glyph has a class, feaLib infers classes from the other features —
also after an all-empty GlyphClassDef statement — and the property demands nothing.) -/
def holdsClassesFont (i : Input) (u : UserGdef) (obs : List (String × Nat)) : Bool :=
  if userAnyClassDef i then obs.isPerm u.classes
  else if expectsAnyClass i then
    decide (obs.map (·.1)).Nodup &&
    obs.all (fun e => (glyphNames i).contains e.1 && catCode (catOf i e.1) == some e.2) &&
    (glyphNames i).all (fun g => match catCode (catOf i g) with
      | some c => obs.contains (g, c)
      | none => true)
  else true

/-- the coordinate a caret anchor stands for: x of `caret_*`, y of `vcaret_*` (its own coordinates) -/
def ownCaret (a : Anchor) : Option Q :=
  match a.name with
  | none => none
  | some n => if n.isEmpty then none else if isCaretName n then some a.x
              else if isVCaretName n then some a.y else none

/-- all caret positions of a glyph: otRound ∘ quantize of every caret anchor's coordinate -/
def caretCoords (quant : Option Q) (g : GlyphIn) : List Int :=
  g.anchors.filterMap (fun a => (ownCaret a).map (fun v => otRound (quantOpt quant v)))

def sameMembers (a b : List Int) : Bool := a.all b.contains && b.all a.contains

/-- increasing order, exactly the glyph's caret positions -/
def caretsOk (quant : Option Q) (g : GlyphIn) (cs : List Int) : Bool :=
  decide (cs.Pairwise (· ≤ ·)) && sameMembers cs (caretCoords quant g)

def findGlyph (i : Input) (n : String) : Option GlyphIn := i.glyphs.find? (fun g => g.name == n)

def caretGlyphs (i : Input) : List String :=
  (i.glyphs.filter (fun g => !(caretCoords i.quant g).isEmpty)).map (·.name)

/-- **carets, writer level** -/
def holdsCaretsFea (i : Input) (obs : Option (List (String × List Int))) : Bool :=
  if userAnyCarets i then obs.isNone
  else match obs with
    | none => (caretGlyphs i).isEmpty
    | some l => (l.map (·.1)).isPerm (caretGlyphs i) &&
        l.all (fun e => match findGlyph i e.1 with
          | some g => caretsOk i.quant g e.2
          | none => false)

def strictInc (cs : List Int) : Bool := decide (cs.Pairwise (· < ·))

/-- **carets, compiled font**: strictly increasing, exactly the glyph's caret positions -/
def holdsCaretsFont (i : Input) (u : UserGdef) (obs : List (String × List Int)) : Bool :=
  if userAnyCarets i then obs.isPerm u.carets
  else (obs.map (·.1)).isPerm (caretGlyphs i) &&
    obs.all (fun e => match findGlyph i e.1 with
      | some g => strictInc e.2 && sameMembers e.2 (caretCoords i.quant g)
      | none => false)

/-! ### carets of a variable build -/

/-- the caret positions of one source of the glyph: every caret anchor's own rounded coordinate -/
def caretCoordsVar (al : List Anchor) : List Int :=
  al.filterMap (fun a => (ownCaret a).map otRound)

/-- **carets, variable build** (what the GDEF writer emits for one glyph): in every source of the designspace the
values of the emitted carets are exactly that source's caret positions, and the carets are in increasing order
of their value in the first source that has them (for the generated designspaces: the default source) -/
def holdsCaretsVar (g : VarGlyph) (obs : List VCaret) : Bool :=
  (List.range g.sources.length).all (fun k =>
    sameMembers (obs.filterMap (·.at k)) (caretCoordsVar (g.sources.getD k []))) &&
  decide ((obs.map caretKey).Pairwise (· ≤ ·))

/-! ### cursive attachment -/

/-- the name of an anchor that has one (an absent or empty name is no name) -/
def properName (a : Anchor) : Option String :=
  match a.name with
  | none => none
  | some n => if n.isEmpty then none else some n

def allAnchorNames (i : Input) : List String :=
  i.glyphs.flatMap (fun g => g.anchors.filterMap properName)

def hasName (i : Input) (n : String) : Bool := (allAnchorNames i).contains n

/-- the exit anchor name belonging to an entry anchor name -/
def exitFor (e : String) : String := if e == "entry" then "exit" else exitNameOf e

def isEntryName (e : String) : Bool := e == "entry" || e.startsWith "entry."

/-- the anchor pairs present in the (exported part of the) font, each once -/
def specPairs (i : Input) : List (String × String) :=
  (((allAnchorNames i).filter (fun e => isEntryName e && hasName i (exitFor e))).map
    (fun e => (e, exitFor e))).eraseDups

/-- the glyph's anchor of that name (the first one, should several share the name) -/
def firstAnchor (g : GlyphIn) (n : String) : Option Anchor := g.anchors.find? (fun a => a.name == some n)

def specXY (quant : Option Q) (a : Anchor) : Int × Int :=
  (otRound (quantOpt quant a.x), otRound (quantOpt quant a.y))

/-- the record the glyph must get for the pair: rounded coordinates, NULL for a missing side -/
def specRec (quant : Option Q) (g : GlyphIn) (p : String × String) : Rec :=
  { glyph := g.name, entry := (firstAnchor g p.1).map (specXY quant), exit := (firstAnchor g p.2).map (specXY quant) }

def hasEither (g : GlyphIn) (p : String × String) : Bool :=
  (firstAnchor g p.1).isSome || (firstAnchor g p.2).isSome

/-- the font has a left-to-right code point (then lookups are split by direction) -/
def splitOn (i : Input) : Bool := i.dir.anyLtrCp && i.dir.ltr.isSome

/-- the glyph belongs to a left-to-right script: it is encoded with / reachable through GSUB from a
left-to-right code point (the given set), or a designspace rule substitutes it for such a glyph -/
def isLtrGlyph (i : Input) (glyph : String) : Bool :=
  (i.dir.ltr.getD []).contains glyph ||
  i.dir.extras.any (fun e => e.2 == glyph && (i.dir.ltr.getD []).contains e.1)

/-- RightToLeft flag rule: explicit suffix decides; otherwise cleared iff splitting is on and the
glyph is a left-to-right glyph -/
def specRtl (i : Input) (entryName glyph : String) : Bool :=
  if isRTLName entryName then true
  else if isLTRName entryName then false
  else !(splitOn i && isLtrGlyph i glyph)

/-- every glyph with at least one anchor of a pair has its exact record in a lookup with the right flag -/
def holdsCursCover (i : Input) (obs : List Lookup) : Bool :=
  (specPairs i).all (fun p => i.glyphs.all (fun g => !hasEither g p ||
    obs.any (fun lk => lk.rtl == specRtl i p.1 g.name && lk.recs.contains (specRec i.quant g p))))

/-- nothing else: every lookup is non-empty, belongs to one pair, lists a glyph at most once, and each
of its records is the exact record of an exported glyph that has an anchor of the pair, under the right flag -/
def holdsCursSound (i : Input) (obs : List Lookup) : Bool :=
  obs.all (fun lk => !lk.recs.isEmpty && decide (lk.recs.map (·.glyph)).Nodup &&
    (specPairs i).any (fun p => lk.recs.all (fun r => i.glyphs.any (fun g =>
      g.name == r.glyph && hasEither g p && r == specRec i.quant g p && lk.rtl == specRtl i p.1 g.name))))

/-- each (pair, glyph) gets exactly one record in total -/
def holdsCursCount (i : Input) (obs : List Lookup) : Bool :=
  (obs.map (·.recs.length)).sum ==
    ((specPairs i).map (fun p => (i.glyphs.filter (fun g => hasEither g p)).length)).sum

/-- **cursive records**; when the user's own `curs` feature suppresses generation nothing is generated -/
def holdsCurs (i : Input) (obs : List Lookup) : Bool :=
  if i.cursTodo then holdsCursCover i obs && holdsCursSound i obs && holdsCursCount i obs
  else obs.isEmpty

/-! ### the anchored helper functions observed directly -/

/-- `r` is the multiple of `q` nearest to `v` (ties upwards) -/
def nearestMultiple (q v r : Q) : Bool :=
  (((r / q).floor : Int) : Q) == r / q && decide (r - v ≤ q / 2) && decide (-(q / 2) < r - v)

def quantOk (quant : Option Q) (v r : Q) : Bool :=
  match quant with
  | none => r == v
  | some q => nearestMultiple q v r

/-- `_getAnchor`: nothing iff no anchor has the name; else the first such anchor, each coordinate
moved to the nearest multiple of the quantisation step when the writer has one -/
def holdsAnchor (quant : Option Q) (anchors : List Anchor) (nm : String) (obs : Option (Q × Q)) : Bool :=
  match anchors.find? (fun a => a.name == some nm), obs with
  | none, none => true
  | some a, some p => quantOk quant a.x p.1 && quantOk quant a.y p.2
  | _, _ => false

def catListOk (items : List (String × String)) (cat : String) (l : List String) : Bool :=
  strictSorted l && l.all (fun g => items.contains (g, cat)) && items.all (fun e => e.2 != cat || l.contains e.1)

/-- `OpenTypeCategories.load`, observed as five sorted lists -/
def holdsCats (items : List (String × String)) (obs : List (List String)) : Bool :=
  match obs with
  | [u, b, l, m, c] => catListOk items "unassigned" u && catListOk items "base" b &&
      catListOk items "ligature" l && catListOk items "mark" m && catListOk items "component" c
  | _ => false

/-- `_getCursiveAnchorPairs`: exactly the pairs present, ordered by entry name -/
def holdsPairs (i : Input) (obs : List (String × String)) : Bool :=
  strictSorted (obs.map (·.1)) && obs.all (specPairs i).contains && (specPairs i).all obs.contains

/-! ### the left-to-right glyph set (`classifyGlyphs(...)["LTR"]`), stated on the observed sets

`s` = the observed set for one direction, `n` = the observed closure of the script-neutral glyphs.  A glyph counts as
reachable when a substitution produces it from glyphs of the direction, where script-neutral glyphs (space,
punctuation, digits, joiners) may take part in the rule's input or context. -/

/-- every encoded glyph of the direction is in the set -/
def dirSeeded (dir0 s : List String) : Bool := dir0.all (fun g => s.contains g)

/-- whatever a rule produces from glyphs of the direction and neutral glyphs is of the direction (or neutral) -/
def dirClosed (rules : List Rule) (s n : List String) : Bool :=
  rules.all (fun r => !(r.need.all (fun g => s.contains g || n.contains g)) ||
    r.out.all (fun g => s.contains g || n.contains g))

/-- nothing else: every other member is produced by some applicable rule and is not a neutral glyph -/
def dirGrounded (rules : List Rule) (dir0 s n : List String) : Bool :=
  s.all (fun g => dir0.contains g || (!n.contains g &&
    rules.any (fun r => r.out.contains g && r.need.all (fun h => s.contains h || n.contains h))))

def holdsDirSet (rules : List Rule) (dir0 neutral0 s n : List String) : Bool :=
  dirSeeded dir0 s && dirClosed rules s n && dirGrounded rules dir0 s n &&
  dirSeeded neutral0 n && dirClosed rules n [] && dirGrounded rules neutral0 n []

end Ufo2ft.C18
