import Ufo2ftModel.Model.C12
/-!
Property C12, declaratively.  "The charstring optimisation level, the subroutiniser backend and the CFF
version affect encoding only: every supported combination renders each glyph with the identical sequence
of drawing operations and coordinates and carries identical advance widths and layout tables; unsupported
combinations raise NotImplementedError."
-/
namespace Ufo2ft.C12

/-! ### which combinations are supported, and what each must deliver -/

/-- the arguments the property quantifies over (any `optimizeCFF`; version None/1/2; backend None or a known name) -/
def inDomain (ver : Option Int) (sub : Option String) : Bool :=
  (ver == none || ver == some 1 || ver == some 2) &&
  (sub == none || sub == some "cffsubr" || sub == some "compreffor")

/-- the table version the caller asked for (None = keep the input's) -/
def requestedOut (iv : Ver) : Option Int → Ver
  | some 2 => .v2
  | some 1 => .v1
  | _ => iv

/-- the backend the caller asked for (None = cffsubr, for either version) -/
def requestedBackend : Option String → Backend
  | some "compreffor" => .compreffor
  | _ => .cffsubr

/-- subroutinisation is requested by True or a level ≥ 2 -/
def wantsSubr : OptArg → Bool
  | .bool b => b
  | .int n => decide (2 ≤ n)

/-- specialisation is requested by True or a level ≥ 1 -/
def wantsSpecialize : OptArg → Bool
  | .bool b => b
  | .int n => decide (1 ≤ n)

/-- documented support: compreffor handles CFF 1 → CFF 1 only; without subroutinisation the only
    conversion is CFF → CFF2 -/
def supported (iv : Ver) (opt : OptArg) (ver : Option Int) (sub : Option String) : Bool :=
  let out := requestedOut iv ver
  if wantsSubr opt then requestedBackend sub != .compreffor || (iv == .v1 && out == .v1)
  else iv == out || (iv == .v1 && out == .v2)

def isSubr : Action → Bool
  | .subr _ _ => true
  | _ => false

def backendOf : Action → Option Backend
  | .subr b _ => some b
  | _ => none

/-- the dispatcher does the right thing for in-domain arguments: NotImplementedError exactly on the
    unsupported combinations and never another error; otherwise the requested table version comes out,
    charstrings are subroutinised iff asked, by the backend asked for, and nothing is touched when nothing
    is asked.  (TrueType fonts are left alone.) -/
def holdsDispatch (iv : Option Ver) (opt : OptArg) (ver : Option Int) (sub : Option String)
    (r : Except Err Action) : Bool :=
  match iv with
  | none => (match r with | .ok a => a == .leave | .error _ => false)
  | some iv =>
    !inDomain ver sub ||
    match r with
    | .error e => e == .notImplemented && !supported iv opt ver sub
    | .ok a =>
      supported iv opt ver sub &&
      outVersion iv a == requestedOut iv ver &&
      isSubr a == wantsSubr opt &&
      (!isSubr a || backendOf a == some (requestedBackend sub)) &&
      (wantsSubr opt || requestedOut iv ver != iv || a == .leave)

/-- the 18 combinations of the property's quantifier -/
def table18 : List (Int × Option String × Int) :=
  [0, 1, 2].flatMap fun o => [none, some "cffsubr", some "compreffor"].flatMap fun s => [1, 2].map fun v => (o, s, v)

/-- …and, spelled out, what `compileOTF` must do for each: (specialise?, action) or the error -/
def expected18 : List (Except Err (Bool × Action)) :=
  [ .ok (false, .leave), .ok (false, .convert), .ok (false, .leave), .ok (false, .convert),
    .ok (false, .leave), .ok (false, .convert),
    .ok (true, .leave), .ok (true, .convert), .ok (true, .leave), .ok (true, .convert),
    .ok (true, .leave), .ok (true, .convert),
    .ok (true, .subr .cffsubr .v1), .ok (true, .subr .cffsubr .v2), .ok (true, .subr .cffsubr .v1),
    .ok (true, .subr .cffsubr .v2), .ok (true, .subr .compreffor .v1), .error .notImplemented ]

/-! ### advance widths -/

/-- a reader recovers the rounded source advance from the charstring (whatever default/nominal pair the
    writer chose), and hmtx carries the same value -/
def holdsWidth (w : Q) (d n : Int) (enc : Option Int) (adv : Int) : Bool :=
  decodeWidth d n enc == otRound w && adv == otRound w

/-! ### identical rendering, metrics and layout -/

/-- everything except the encoding -/
def Out.content (o : Out) : List Drawing × List Int × List String := (o.drawing, o.adv, o.layout)

def allSame [BEq α] : List α → Bool
  | [] => true
  | a :: l => l.all (· == a)

def oks : List (Except String Out) → List Out
  | [] => []
  | .ok o :: l => o :: oks l
  | .error _ :: l => oks l

/-- one combination: an unsupported one raises NotImplementedError, a supported one succeeds and
    carries the table version asked for -/
def holdsCombo (c : Combo) (r : Except String Out) : Bool :=
  match r with
  | .error e => e == "NotImplementedError" && !supported .v1 c.1 c.2.1 c.2.2
  | .ok o => supported .v1 c.1 c.2.1 c.2.2 && o.tag == requestedOut .v1 c.2.1

/-- **the property on one source font**: `rs` = result of `compileOTF` for each combination in `cs` -/
def holdsSame (cs : List Combo) (rs : List (Except String Out)) : Bool :=
  cs.length == rs.length &&
  (cs.zip rs).all (fun p => holdsCombo p.1 p.2) &&
  allSame ((oks rs).map Out.content)

/-! ### drawings on which the specialiser has nothing to merge or delete -/

def isMove : Cmd → Bool
  | .rmoveto _ _ => true
  | _ => false

/-- this command alone is not redundant: no zero-length line, no curve with both handles retracted -/
def cmdOk : Cmd → Bool
  | .rmoveto _ _ => true
  | .rlineto a b => !(a == 0 && b == 0)
  | .rrcurveto a b _ _ e f => !(a == 0 && b == 0 && e == 0 && f == 0)

/-- these two neighbours do not fuse: not two movetos, not two horizontal lines, not two vertical lines -/
def pairOk : Cmd → Cmd → Bool
  | .rmoveto _ _, .rmoveto _ _ => false
  | .rlineto a b, .rlineto a' b' => !((b == 0 && b' == 0) || (a == 0 && a' == 0))
  | _, _ => true

def topoFree : List Cmd → Bool
  | [] => true
  | [c] => cmdOk c
  | c :: c' :: l => cmdOk c && pairOk c c' && topoFree (c' :: l)

/-- a drawing as CFF produces it: sub-paths `moveTo (lineTo|curveTo)* closePath` -/
def wfFrom : Bool → Drawing → Bool
  | open_, [] => !open_
  | false, .moveTo _ _ :: l => wfFrom true l
  | true, .lineTo _ _ :: l => wfFrom true l
  | true, .curveTo _ _ _ _ _ _ :: l => wfFrom true l
  | true, .closePath :: l => wfFrom false l
  | _, _ => false

def wfDrawing (d : Drawing) : Bool := wfFrom false d

/-- a glyph drawing contains a sub-path that is a moveTo and nothing else -/
def hasLoneMove : Drawing → Bool
  | .moveTo _ _ :: .closePath :: _ => true
  | _ :: l => hasLoneMove l
  | [] => false

/-- a glyph drawing on which neither the specialiser nor tx has anything to merge, delete or drop -/
def plainDrawing (d : Drawing) : Bool := wfDrawing d && topoFree (toCmds d) && !hasLoneMove d

/-- how far a command moves the pen -/
def cdelta : Cmd → Int × Int
  | .rmoveto a b => (a, b)
  | .rlineto a b => (a, b)
  | .rrcurveto a b c d e f => (a + c + e, b + d + f)

def padd (p d : Int × Int) : Int × Int := (p.1 + d.1, p.2 + d.2)

/-- on-curve points the pen visits, in order, starting from `p` -/
def visited (p : Int × Int) : List Cmd → List (Int × Int)
  | [] => []
  | c :: l => padd p (cdelta c) :: visited (padd p (cdelta c)) l

/-- where the pen ends -/
def endPoint (p : Int × Int) : List Cmd → Int × Int
  | [] => p
  | c :: l => endPoint (padd p (cdelta c)) l

end Ufo2ft.C12
