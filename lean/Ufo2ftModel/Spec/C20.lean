import Ufo2ftModel.Model.C20
/-!
Property C20, declaratively, on (input, compiled ScriptList).  `obs` is the list of
(script, language, feature) entries read off a compiled GPOS table.
-/
namespace Ufo2ft.C20

/-- generated feature `g` acts on glyphs of script `s` (every feature acts under the fallback script DFLT) -/
def actsOn (acts : List Tag) (s : Tag) : Bool := s == "DFLT" || acts.contains "*" || acts.contains s

/-- the tags of generated kerning (what the kerning writer was asked to generate) -/
def kernTags (i : In) : List Tag := ["kern", "dist"].filter i.kern.todo.contains

/-- **C20, first half**: wherever generated kerning is registered, every generated mark/mkmk/abvm/blwm/curs feature
that acts on glyphs of that script is registered for the same language system. -/
def holdsReach (i : In) (obs : List Key) : Bool :=
  obs.all (fun k => !(kernTags i).contains k.2.2 ||
    i.gen.all (fun g => !actsOn g.acts k.1 || obs.contains (k.1, k.2.1, g.tag)))

/-- **C20, second half**: generated kerning registered for a script's default language system is registered for
every language system the feature file declares for that script (otherwise selecting a language loses kerning
while mark positioning, which follows the languagesystem statements, stays). -/
def holdsLang (i : In) (obs : List Key) : Bool :=
  i.langsys.all (fun sl => (kernTags i).all (fun f =>
    !obs.contains (sl.1, "dflt", f) || obs.contains (sl.1, sl.2, f)))

def holds (i : In) (obs : List Key) : Bool := holdsReach i obs && holdsLang i obs

/-- declared language systems that lack the kerning their script's default has -/
def langFailures (i : In) (obs : List Key) : List Key :=
  i.langsys.flatMap (fun sl => ((kernTags i).filter (fun f =>
    obs.contains (sl.1, "dflt", f) && !obs.contains (sl.1, sl.2, f))).map (fun f => (sl.1, sl.2, f)))

/-- the offending (entry with kerning, missing feature) pairs -/
def failures (i : In) (obs : List Key) : List (Key × Tag) :=
  obs.flatMap (fun k => if (kernTags i).contains k.2.2 then
      (i.gen.filter (fun g => actsOn g.acts k.1 && !obs.contains (k.1, k.2.1, g.tag))).map (fun g => (k, g.tag))
    else [])

/-- the language systems under which a block without script statements is registered -/
def declared (i : In) (sl : LS) : Bool := (defaultLS i.langsys).contains sl

/-- script tags a block names in `script` statements -/
def scriptTags : List Stmt → List Tag
  | [] => []
  | .script s :: r => s :: scriptTags r
  | _ :: r => scriptTags r

/-- the script tags the kerning writer registers feature `f` for -/
def kernScripts (i : In) (f : Tag) : List Tag :=
  (kernBlocks i.kern i.langsys).flatMap (fun b => if b.tag == f then scriptTags b.stmts else [])

/-- shape A (the known finding): the kerning writer names script `s` explicitly, the feature file has no
`languagesystem s dflt`, so the features that rely on languagesystem defaults are missing under `s`/dflt. -/
def shapeA (i : In) (fl : Key × Tag) : Bool :=
  !declared i (fl.1.1, fl.1.2.1) && fl.1.2.1 == "dflt" && (kernScripts i fl.1.2.2).contains fl.1.1 &&
  (i.gen.map (·.tag)).contains fl.2 &&
  -- the script is one the font really supports (or the fallback script): a script that only appears because the
  -- kerning writer mis-detected it is NOT the known shape
  (fl.1.1 == "DFLT" || i.fontScripts.contains fl.1.1)

/-- shape B: feaLib's `script` statement is a no-op when the current language systems are exactly
{(s, dflt)} — but `script_` stays "DFLT", so with a single `languagesystem s dflt;` (s ≠ DFLT) a block that
starts with `script s; language dflt;` lands under DFLT/dflt, which is not declared. -/
def shapeB (i : In) (fl : Key × Tag) : Bool :=
  fl.1.1 == "DFLT" && fl.1.2.1 == "dflt" && !declared i ("DFLT", "dflt") &&
  (match i.langsys, (kernScripts i fl.1.2.2).head? with
   | [(s, l)], some s0 => s == s0 && l == "dflt"
   | _, _ => false) &&
  (i.gen.map (·.tag)).contains fl.2

/-- feaLib accepts the languagesystem statements: no duplicate, `DFLT dflt` only first, DFLT before the rest -/
def wfLangsys (ls : List LS) : Bool :=
  decide ls.Nodup && !(ls.tail.contains ("DFLT", "dflt")) &&
  decide (ls.Pairwise (fun a b => b.1 = "DFLT" → a.1 = "DFLT"))

/-- the generated features are distinct, non-empty for GPOS, and no other block carries their tag -/
def wfIn (i : In) : Bool :=
  i.kern.info.all (fun p => p.2.tags.all (fun t => t != "")) &&     -- OpenType tags are not empty strings
  decide (i.gen.map (·.tag)).Nodup &&
  i.gen.all (fun g => g.lookups.any (·.gpos) && g.tag != "kern" && g.tag != "dist") &&
  i.user.all (fun b => b.tag != "kern" && b.tag != "dist" && !(i.gen.map (·.tag)).contains b.tag)

/-- every `language l` statement either is `dflt` or names a language system the feature file declares for the
script of the preceding `script` statement (what `_registerLookups` must guarantee). -/
def okStmts (langsys : List LS) : Tag → List Stmt → Bool
  | _, [] => true
  | _, .script s :: r => okStmts langsys s r
  | cur, .language l _ :: r => (l == "dflt" || langsys.contains (cur, l)) && okStmts langsys cur r
  | cur, .lookup _ :: r => okStmts langsys cur r

/-- a kerning block starts with a `script` statement (nothing is registered under the languagesystem defaults) -/
def startsWithScript : List Stmt → Bool
  | .script _ :: _ => true
  | _ => false

/-- sections of a block: each `script s` statement followed by a `language dflt` and at least one lookup -/
def sectionsOk : List Stmt → Bool
  | [] => true
  | .script _ :: .language l incl :: .lookup _ :: r => l == "dflt" && incl && sectionsOk r
  | .script _ :: _ => false
  | _ :: r => sectionsOk r

/-- what C20's conditional theorem needs of the block the kerning writer emits (evaluated on the REAL block) -/
def holdsRegister (langsys : List LS) (obs : List Stmt) : Bool :=
  obs.isEmpty || (startsWithScript obs && okStmts langsys "DFLT" obs && sectionsOk obs)

/-! ### designspace builds: kerning on rule alternates stays reachable from the script of the replaced glyph -/

/-- what the property needs of `extraSubstitutions`: every (glyph, replacement) of every rule is in the mapping, and
the mapping holds nothing else -/
def holdsExtra (rules : List Rule) (obs : SubMap) : Bool :=
  rules.all (fun rule => rule.all (fun s => (extraGet obs s.1).contains s.2)) &&
  obs.all (fun e => e.2.all (fun r => rules.any (fun rule => rule.contains (e.1, r))))

/-- what the property needs of the classification step: nothing is lost, and every alternate of a member is a member -/
def holdsClassify (m : SubMap) (sets obs : List (Tag × List String)) : Bool :=
  sets.all (fun sg => obs.any (fun og => og.1 == sg.1 && sg.2.all og.2.contains &&
    sg.2.all (fun g => (extraGet m g).all og.2.contains)))

/-- input of the designspace stream: the rules, each glyph's own OpenType script tags (from its code points;
`["*"]` = common/inherited, `[]` = not encoded), the kerning pairs (groups expanded) -/
structure DsIn where
  rules : List Rule
  own : List (String × List Tag)
  pairs : List (String × String)
  deriving Repr

/-- script tags of a glyph: its own code points', plus those of every glyph a designspace rule replaces by it
(the alternate is only ever shown in place of that glyph, so it belongs to that glyph's script) -/
def dsScripts (i : DsIn) (g : String) : List Tag :=
  (alookup g i.own).getD [] ++
  i.rules.flatMap (fun rule => rule.flatMap (fun s => if s.2 == g then (alookup s.1 i.own).getD [] else []))

/-- glyph `g` belongs to script `s` and to no common/inherited character -/
def dsSpecific (i : DsIn) (g : String) (s : Tag) : Bool :=
  (dsScripts i g).contains s && !(dsScripts i g).contains "*"

/-- generated kerning acts on glyphs of script `s`: some pair has both glyphs in `s` -/
def kernActsOn (i : DsIn) (s : Tag) : Bool := i.pairs.any (fun p => dsSpecific i p.1 s && dsSpecific i p.2 s)

def isGenPos (f : Tag) : Bool := ["mark", "mkmk", "abvm", "blwm", "curs"].contains f

/-- **C20, converse direction** (first sentence of the property): a language system present in the compiled GPOS
through a generated mark/mkmk/abvm/blwm/curs feature exposes generated kerning (kern or dist) too whenever
kerning acts on glyphs of its script. -/
def holdsDs (i : DsIn) (obs : List Key) : Bool :=
  obs.all (fun k => !isGenPos k.2.2 || !kernActsOn i k.1 ||
    obs.any (fun k' => k'.1 == k.1 && k'.2.1 == k.2.1 && (k'.2.2 == "kern" || k'.2.2 == "dist")))

/-- the offending language systems -/
def dsFailures (i : DsIn) (obs : List Key) : List Key :=
  obs.filter (fun k => isGenPos k.2.2 && kernActsOn i k.1 &&
    !obs.any (fun k' => k'.1 == k.1 && k'.2.1 == k.2.1 && (k'.2.2 == "kern" || k'.2.2 == "dist")))

/-! ### merged cross-script kerning buckets (`mergeScripts`) and the converse direction across scripts -/

/-- what the property needs of `mergeScripts`: the merged buckets are pairwise DISJOINT (a script's kerning lives in one
bucket, so no bucket can be emptied in favour of another one sharing a script), name only scripts of the input, every
input bucket's scripts and pairs are inside ONE merged bucket, and no pair is lost or invented. -/
def holdsMerge (kps obs : List (SSet × List Nat)) : Bool :=
  obs.Pairwise (fun a b => a.1.all (fun x => !b.1.contains x)) &&
  obs.all (fun b => b.1.all (fun x => kps.any (fun k => k.1.contains x))) &&
  kps.all (fun k => k.1.isEmpty || obs.any (fun b => k.1.all b.1.contains && k.2.all b.2.contains)) &&
  (obs.flatMap (·.2)).isPerm (kps.flatMap (·.2))

/-- input of the cross-script stream: each glyph's OpenType script tags (`["*"]` = common/inherited), the kerning pairs
(groups expanded), the horizontal direction of each script tag -/
structure XIn where
  own : List (String × List Tag)
  pairs : List (String × String)
  dirs : List (Tag × String)
  deriving Repr

def xTags (i : XIn) (g : String) : List Tag := (alookup g i.own).getD []
def xSpecific (i : XIn) (g : String) : Bool := !(xTags i g).isEmpty && !(xTags i g).contains "*"
def xDirs (i : XIn) (g : String) : List String := (xTags i g).filterMap (fun t => alookup t i.dirs)

/-- generated kerning acts on glyphs of script `s`: some pair between script-specific glyphs that all run in ONE direction
has a glyph of `s` on either side (pairs of mixed direction cannot be applied by a shaper and are dropped by design) -/
def kernActsOnX (i : XIn) (s : Tag) : Bool :=
  i.pairs.any (fun p => xSpecific i p.1 && xSpecific i p.2 &&
    (xDirs i p.1 ++ xDirs i p.2).all (fun d => (xDirs i p.1 ++ xDirs i p.2).all (· == d)) &&
    ((xTags i p.1).contains s || (xTags i p.2).contains s))

/-- **C20, converse direction, cross-script kerning**: a language system present in the compiled GPOS through a generated
mark/mkmk/abvm/blwm/curs feature exposes generated kerning (kern or dist) too whenever a kerning pair involves a glyph of
its script. -/
def holdsX (i : XIn) (obs : List Key) : Bool :=
  obs.all (fun k => !isGenPos k.2.2 || !kernActsOnX i k.1 ||
    obs.any (fun k' => k'.1 == k.1 && k'.2.1 == k.2.1 && (k'.2.2 == "kern" || k'.2.2 == "dist")))

def xFailures (i : XIn) (obs : List Key) : List Key :=
  obs.filter (fun k => isGenPos k.2.2 && kernActsOnX i k.1 &&
    !obs.any (fun k' => k'.1 == k.1 && k'.2.1 == k.2.1 && (k'.2.2 == "kern" || k'.2.2 == "dist")))

/-! ### variable fonts: the kerning of EVERY master takes part -/

/-- what the property needs of the pair universe of a variable build: a kerning pair of ANY full (non-layer) source whose
sides exist is among the pairs the writer builds lookups from - a script kerned only in a non-default master keeps its
kerning (and so its `script` registration) - and nothing is invented. -/
def holdsVarPairs (srcs : List KSrc) (known : List String) (obs : List KP) : Bool :=
  srcs.all (fun s => s.layer ||
    s.pairs.all (fun p => !(known.contains p.1 && known.contains p.2) || obs.contains p)) &&
  obs.all (fun p => srcs.any (fun s => !s.layer && s.pairs.contains p))

end Ufo2ft.C20
