import Ufo2ftModel.Model.C17
/-!
Property C17 as decidable predicates on (file before a writer ran, what the harness knows of the writer, file after).
Everything here is *reading* files; nothing performs an insertion.

Views of a file (both are `flatMap`s of a per-statement function, i.e. the file read top to bottom):

* `skel`  — the user's statements: generated statements erased, comments inside feature blocks erased (the insertion
            markers are such comments), feature blocks that hold nothing but comments erased, and the boundary of a block
            made by splitting ignored (its statements continue the block before it).  Every token carries the user's
            id of the statement; statements inside a feature block also carry the block's tag.
* `ftoks` — the placement view: the non-comment statements in reading order, block boundaries ignored, with every
            generated *feature block* as one token (generated lookups and definitions erased).
-/
namespace Ufo2ft.C17

inductive Tok
  | top (uid : Nat)                                                     -- top-level user statement
  | topc (uid : Nat) (text : String)                                    -- top-level user comment
  | blk (uid : Nat) (kind : BKind) (tag : String) (ext : Bool) (body : List Item)  -- user block that is not a feature block
  | fopen (uid : Nat) (tag : String) (ext : Bool)                       -- a user feature block starts
  | item (tag : String) (it : Item)                                     -- statement inside a feature block tagged `tag`
  | feat (tag : String) (gid : Nat)                                     -- generated feature block (top level)
  | stray                                                               -- a shape no writer may produce
  deriving DecidableEq, Repr

def featTok (f : Feat) : Tok := .feat f.tag f.gid

/-- a placement plan entry: the generated features `feats` go where comment `comment` of a `tag` block is -/
structure Place where
  tag : String
  comment : Nat
  feats : List Feat
  deriving Repr, DecidableEq

def subst (pl : List Place) (tag : String) (c : Nat) : List Tok :=
  match pl.find? (fun e => e.tag == tag && e.comment == c) with
  | some e => e.feats.map featTok
  | none => []

/-- statements of a feature block tagged `tag`; `gens`: keep generated items; `pl`: what stands for a comment -/
def bodyToks (gens : Bool) (pl : List Place) (tag : String) : List Item → List Tok
  | [] => []
  | .comment u _ :: l => subst pl tag u ++ bodyToks gens pl tag l
  | .gen g :: l => (if gens then [.item tag (.gen g)] else []) ++ bodyToks gens pl tag l
  | it :: l => .item tag it :: bodyToks gens pl tag l

def notGen : Item → Bool | .gen _ => false | _ => true

def stmtToks (opens gens : Bool) (pl : List Place) : Stmt → List Tok
  | .leaf u => [.top u]
  | .comment u t => [.topc u t]
  | .block (.user u) .feature tag ext body =>
      let b := bodyToks gens pl tag body
      if opens && !(body.all Item.isComment) then .fopen u tag ext :: b else b
  | .block .split .feature tag _ body => bodyToks gens pl tag body
  | .block (.user u) k tag ext body => [.blk u k tag ext (body.filter notGen)]
  | .block .split _ _ _ _ => [.stray]
  | .gen (.feature tag g) => if gens then [.feat tag g] else []
  | .gen _ => []

/-- the user's statements, in order (see the header) -/
def skel (f : File) : List Tok := f.flatMap (stmtToks true false [])

/-- placement view, with the comments named in `pl` replaced by the generated features planned for them -/
def ftoksP (pl : List Place) (f : File) : List Tok := f.flatMap (stmtToks false true pl)

def ftoks (f : File) : List Tok := ftoksP [] f

/-! ### well-formedness: object identity in Python = distinct ids here -/

def itemUid : Item → Option Nat | .comment u _ => some u | _ => none

/-- ids of the comments in a list of statements -/
def itemUids (l : List Item) : List Nat := l.filterMap itemUid

def blockCommentUids : Stmt → List Nat
  | .block _ .feature _ _ body => itemUids body
  | _ => []

/-- the comments directly inside top-level feature blocks are distinct objects -/
def wfFile (f : File) : Bool := decide (f.flatMap blockCommentUids).Nodup

/-- the feature blocks a writer builds are distinct objects with distinct tags -/
def wfWriter (w : Writer) : Bool :=
  decide (w.produce.map (·.gid)).Nodup && decide (w.produce.map (·.tag)).Nodup

/-! ### which features a writer generates, and where they must go -/

def hasFeatureBlock (f : File) (t : String) : Bool :=
  f.any (fun s => match s with
    | .block _ .feature tag _ _ => tag == t
    | .gen (.feature tag _) => tag == t
    | _ => false)

def firstMarkerIn : List Item → Option Nat
  | [] => none
  | .comment u txt :: l => if isMarker txt then some u else firstMarkerIn l
  | _ :: l => firstMarkerIn l

/-- the first comment matching the marker pattern directly inside a top-level feature block tagged `t` -/
def firstMarker : File → String → Option Nat
  | [], _ => none
  | .block _ .feature tag _ body :: l, t =>
      if tag == t then (match firstMarkerIn body with | some u => some u | none => firstMarker l t) else firstMarker l t
  | _ :: l, t => firstMarker l t

/-- the marker a writer uses for tag `t` (only in skip mode, only for its own features) -/
def markerOf (f : File) (w : Writer) (t : String) : Option Nat :=
  if w.skip && w.pattern && w.features.contains t then firstMarker f t else none

/-- `t` is to be generated: it is one of the writer's features and, in skip mode, the file has no feature block with
that tag, or has one with a marker -/
def specTodo (f : File) (w : Writer) (t : String) : Bool :=
  w.features.contains t && (!w.skip || !hasFeatureBlock f t || (markerOf f w t).isSome)

def specFeats (f : File) (w : Writer) : List Feat := w.produce.filter (fun p => specTodo f w p.tag)

/-- Reading the writer's features in its order: a feature with a marker goes to its marker, preceded by the features
without marker accumulated since the previous feature with a marker; what is left at the end goes to the end of the file. -/
def plan (mk : String → Option Nat) : List Feat → List Feat → List Place × List Feat
  | [], pend => ([], pend)
  | f :: fs, pend =>
    match mk f.tag with
    | some c => let r := plan mk fs []; (⟨f.tag, c, pend ++ [f]⟩ :: r.1, r.2)
    | none => plan mk fs (pend ++ [f])

def expectedToks (f : File) (w : Writer) (feats : List Feat) : List Tok :=
  let r := plan (markerOf f w) feats []
  ftoksP r.1 f ++ r.2.map featTok

/-- the markers a writer uses: they are consumed (deleted from their blocks) -/
def usedMarkers (f : File) (w : Writer) (feats : List Feat) : List Nat :=
  (plan (markerOf f w) feats []).1.map (·.comment)

/-- one writer: before `f`, after `o`: the user's statements are untouched; the feature blocks generated are exactly
those of `specFeats` and stand where `plan` puts them; the markers used are gone -/
def holdsWrite (f : File) (w : Writer) (o : File) : Bool :=
  skel o == skel f &&
  (let feats := specFeats f w
   if feats.isEmpty then o == f
   else ftoks o == expectedToks f w feats &&
        (usedMarkers f w feats).all (fun c => !(o.flatMap blockCommentUids).contains c))

/-- the GDEF writer only adds: nothing of the user's file moves, no feature block appears -/
def holdsGdef (f : File) (o : File) : Bool := skel o == skel f && ftoks o == ftoks f

/-! ### the GDEF writer: a hand-written part of `table GDEF` is not written a second time -/

/-- the statements of the first `table GDEF` of the file (none: the file has no such table): where the writer appends -/
def firstGdef (f : File) : Option (List Item) :=
  (f.findSome? (fun s => match s with
    | .block _ .table tag _ body => if tag == "GDEF" then some body else none
    | _ => none))

/-- the statements of ALL `table GDEF` blocks of the file, in reading order: what the user wrote by hand for GDEF -/
def userGdef (f : File) : List Item :=
  f.flatMap (fun s => match s with
    | .block _ .table tag _ body => if tag == "GDEF" then body else []
    | _ => [])

def isCaretKind : GKind → Bool | .caretByIndex => true | .caretByPos => true | _ => false

/-- `gen` = the types of the statements the GDEF writer added (read off the AST by the harness).  Glyph classes are
generated (once) exactly when none of the user's `table GDEF` blocks defines any and the font has categories; ligature carets are generated
(one statement per glyph that has caret anchors) exactly when none of the user's blocks holds a ligature caret statement
of either form; nothing else is generated. -/
def holdsGdefGen (i : GdefIn) (f : File) (gen : List GKind) : Bool :=
  let user := (userGdef f).map (itemKind i.kinds)
  gen.count .glyphClassDef == (if !user.contains .glyphClassDef && i.hasCats then 1 else 0) &&
  gen.count .caretByPos == (if user.any isCaretKind then 0 else i.carets) &&
  gen.all (fun k => k == .glyphClassDef || k == .caretByPos)

/-- how many statements the GDEF writer has to add -/
def specGdefCount (i : GdefIn) (f : File) : Nat :=
  let user := (userGdef f).map (itemKind i.kinds)
  (if !user.contains .glyphClassDef && i.hasCats then 1 else 0) + (if user.any isCaretKind then 0 else i.carets)

/-- where the generated statements are: inside the user's first `table GDEF` if there is one, else in one new top-level statement
at the end of the file; if nothing is generated the file is the same -/
def holdsGdefPlace (f : File) (n : Nat) (o : File) : Bool :=
  if n == 0 then o == f
  else match firstGdef f with
    | some body =>
      o.length == f.length &&
      (match firstGdef o with
       | some body' => body'.take body.length == body && body'.length == body.length + n &&
                       (body'.drop body.length).all (fun it => !notGen it)
       | none => false)
    | none => o.length == f.length + 1 && o.take f.length == f &&
              (match o.getLast? with | some (.gen (.other _)) => true | _ => false)

def holdsStep : Step → File → File → Bool
  | .writer w, f, o => holdsWrite f w o
  | .gdef i, f, o => holdsGdef f o && holdsGdefPlace f (specGdefCount i f) o

/-- a whole run: `outs` = the file after each writer -/
def holdsRun : List Step → File → List File → Bool
  | [], _, [] => true
  | s :: ss, f, o :: os => holdsStep s f o && holdsRun ss o os
  | _, _, _ => false

/-- end of a run: the user's statements are exactly those of the file the run started from -/
def holdsFinal (f : File) (outs : List File) : Bool := outs.all (fun o => skel o == skel f)

/-! ### writer list -/

def expand (arg : Option (List WArg)) (sub : List (Nat × String)) : List (Nat × String) :=
  (arg.getD [.ellipsis]).flatMap (fun a => match a with | .ellipsis => sub | .writer i t => [(i, t)])

def ellipses (arg : Option (List WArg)) : Nat := ((arg.getD [.ellipsis]).filter (· == .ellipsis)).length

/-- GSUB writers first, each group in the order given; the ellipsis stands for the lib's writers if the lib has the
key, else for the defaults; at most one ellipsis. -/
def holdsWriters (arg : Option (List WArg)) (lib : Option (List (Nat × String))) (dflt : List (Nat × String))
    (obs : Except WErr (List (Nat × String))) : Bool :=
  match obs with
  | .error _ => decide (ellipses arg ≥ 2)
  | .ok l =>
    decide (ellipses arg ≤ 1) &&
    (let all := expand arg (lib.getD dflt)
     l == all.filter (fun w => w.2 == "GSUB") ++ all.filter (fun w => !(w.2 == "GSUB")))

end Ufo2ft.C17
