import Ufo2ftModel.Model.C04
/-! Declarative statement of C04's derived-field consistency, as decidable predicates. -/
namespace Ufo2ft.C04

/-- `v` is the maximum of `l` (0 for the empty list) -/
def isMaxOr0 (v : Int) (l : List Int) : Bool :=
  if l.isEmpty then v == 0 else l.contains v && l.all (fun a => decide (a ≤ v))
def isMinOr0 (v : Int) (l : List Int) : Bool :=
  if l.isEmpty then v == 0 else l.contains v && l.all (fun a => decide (v ≤ a))

/-- the long-metric count: within range, every advance from index n-1 on equals the last one,
    and n is minimal with that property -/
def holdsNumLong (a : List Int) (n : Nat) : Bool :=
  match a.getLast? with
  | none => n == 0
  | some last => decide (1 ≤ n) && decide (n ≤ a.length) && (a.drop (n - 1)).all (· == last) &&
      (n == 1 || a[n - 2]? != some last)

/-- how a reader reconstructs per-glyph advances from `n` long metrics -/
def decodeAdvances (n : Nat) (long : List Int) (numGlyphs : Nat) : List Int :=
  long ++ List.replicate (numGlyphs - n) (long.getLast?.getD 0)

/-- (advance, first bearing, span) of the glyphs that have a bounding box -/
def rowsOf (mtx : List (Int × Int)) (spans : List (Option Int)) : List (Int × Int × Int) :=
  (mtx.zip spans).filterMap (fun (m, s) => s.map (fun d => (m.1, m.2, d)))

def holdsHeader (mtx : List (Int × Int)) (spans : List (Option Int)) (h : Header) : Bool :=
  let rows := rowsOf mtx spans
  isMaxOr0 h.advanceMax (mtx.map (·.1)) &&
  isMinOr0 h.minFirst (rows.map (fun r => r.2.1)) &&
  isMinOr0 h.minSecond (rows.map (fun r => r.1 - r.2.1 - r.2.2)) &&
  isMaxOr0 h.maxExtent (rows.map (fun r => r.2.1 + r.2.2)) &&
  holdsNumLong (mtx.map (·.1)) h.numLong

/-- side bearings equal the outline extrema; advances are the rounded source widths -/
def holdsHmtx (gs : List G) (obs : List (Int × Int)) : Bool :=
  obs == gs.map (fun g => (otRound g.width, lsbOf g))

def holdsVmtx (typoAsc : Int) (gs : List G) (obs : List (Int × Int)) : Bool :=
  obs == gs.map (fun g => (otRound g.height,
    vertOrigin typoAsc g - topOf g))

/-- the font box is the union of the glyph boxes -/
def holdsFontBox (gs : List G) (b : Box) : Bool :=
  let bs := gs.filterMap (·.box)
  if bs.isEmpty then b == ⟨0, 0, 0, 0⟩ else
  isMinOr0 b.xMin (bs.map (·.xMin)) && isMinOr0 b.yMin (bs.map (·.yMin)) &&
  isMaxOr0 b.xMax (bs.map (·.xMax)) && isMaxOr0 b.yMax (bs.map (·.yMax))

/-- OS/2 first/last character index: min / max of the mapped code points, each clamped to 0xFFFF
    (OpenType: supplementary-plane code points are reported as 0xFFFF); 0xFFFF when nothing is mapped -/
def holdsCharRange (cps : List Int) (r : Int × Int) : Bool :=
  if cps.isEmpty then r == (0xFFFF, 0xFFFF) else
  isMinOr0 r.1 (cps.map (fun c => min c 0xFFFF)) && isMaxOr0 r.2 (cps.map (fun c => min c 0xFFFF))

def countOf (v : Int) (vs : List Int) : Nat := vs.count v

/-- VORG: the default is a most frequent origin; records are exactly the glyphs that differ -/
def holdsVorg (typoAsc : Int) (gs : List G) (v : Vorg) : Bool :=
  let vs := gs.map (vertOrigin typoAsc)
  (vs.isEmpty || (vs.contains v.default && vs.all (fun x => decide (countOf x vs ≤ countOf v.default vs)))) &&
  v.records == gs.filterMap (fun g => if vertOrigin typoAsc g == v.default then none else some (g.name, vertOrigin typoAsc g))

/-- how a CFF reader obtains the advance of a glyph (Adobe TN 5176/5177; fontTools `T2WidthExtractor`):
    an operator absent from the Private dict has the value 0; a charstring without width operand has
    advance defaultWidthX, otherwise nominalWidthX + operand -/
def readCffWidth (p : PrivW) : Option Int → Int
  | none => p.defaultWidthX.getD 0
  | some e => p.nominalWidthX.getD 0 + e

/-- the advances stored in the 'CFF ' table (Private dict + charstrings) are, glyph by glyph, the
    rounded source advances -- i.e. exactly the advances of hmtx (`holdsHmtx`) -/
def holdsCffWidths (gs : List G) (c : CffW) : Bool :=
  c.cs.map (readCffWidth c.priv) == gs.map (fun g => otRound g.width)

/-- the same statement between two observed tables: CFF advances = hmtx advances -/
def holdsCffVsHmtx (hm : List (Int × Int)) (c : CffW) : Bool :=
  c.cs.map (readCffWidth c.priv) == hm.map (·.1)

end Ufo2ft.C04
