import Ufo2ftModel.Basic
import Ufo2ftModel.Drv.All
import Ufo2ftModel.Props.C03
import Ufo2ftModel.Props.C04
